// Driver for the algorithm family (C06).  NOT part of tetl.
//
//   algo_driver list                       -> "<op> <cat> <cat> ..." per line (what this build can drive)
//   algo_driver one <op> <cat> <c> <m> <v> <a keys> <b keys>   -> re-execute one recorded case (--replay)
//   algo_driver run <domain.ndjson> <ops>  -> one ndjson event per call on stdout (ops: all | op,op/cat,...)
//
// The domain file carries the key sequences exported by TLC from spec/Algo.tla (+ one cfg line with
// the bounds).  For every selected algorithm and every iterator category it is registered for, the
// driver enumerates the algorithm's input domain (as declared in spec/AlgoDom.tla) in increasing key
// order and calls the real template.  It records inputs, both ranges after the call, destination
// buffers, returned iterators / values, the set of elements predicates were applied to and whether
// the canaries around every buffer are intact.  It contains no oracle and compares nothing:
// spec/AlgoTrace.tla judges every event and checks that the domain was covered exactly.
//
// -DVH_STD: the identical calls on libstdc++ (calibration of the specification).
// -DVH_PROBE_FN=run_x -DVH_PROBE_POL=P_y: compile probe for one (algorithm, category) instantiation.
#include <csetjmp>
#include <csignal>
#include <cstdio>
#include <cstdlib>
#include <cstring>
#include <algorithm>
#include <iterator>
#include <string>
#include <sys/time.h>
#include <unistd.h>
#include <utility>
#include <vector>

#ifdef VH_STD
    #include <algorithm>
    #include <functional>
    #include <numeric>
namespace lib = std;
#else
    #include <etl/algorithm.hpp>
    #include <etl/functional.hpp>
    #include <etl/iterator.hpp>
    #include <etl/numeric.hpp>
    #include <etl/utility.hpp>
    #include <etl/vector.hpp>
namespace lib = etl;
#endif

#include "iter_wrappers.hpp"

using namespace vw;

// ------------------------------------------------------------------------------------------
// element type: identity (key, tag); every comparison only looks at the key and is logged
// ------------------------------------------------------------------------------------------
static unsigned char g_touch[256];
static int g_selfmove = 0; // number of self-move-assignments (x = std::move(x)) during the current call

struct Elem {
    int k;
    int t;
    Elem() : k(0), t(0) { }
    Elem(int kk, int tt) : k(kk), t(tt) { }
    Elem(Elem const&)                    = default;
    auto operator=(Elem const&) -> Elem& = default;
    Elem(Elem&& o) noexcept : k(o.k), t(o.t) { o.k = 9; }
    auto operator=(Elem&& o) noexcept -> Elem&
    {
        // self-hostile like a real handle type (vector, unique_ptr-like): x = move(x) leaves x moved-from;
        // the call is also flagged ("sm") so that the trace specification can judge it
        if (this == &o) {
            ++g_selfmove;
            k = 9;
            return *this;
        }
        k   = o.k;
        t   = o.t;
        o.k = 9;
        return *this;
    }
    int code() const { return k * 16 + t; }
};
static inline void touch(Elem const& e) { g_touch[e.code() & 255] = 1; }
static inline bool operator==(Elem const& a, Elem const& b)
{
    touch(a);
    touch(b);
    return a.k == b.k;
}
static inline bool operator!=(Elem const& a, Elem const& b) { return !(a == b); }
static inline bool operator<(Elem const& a, Elem const& b)
{
    touch(a);
    touch(b);
    return a.k < b.k;
}
static inline bool operator>(Elem const& a, Elem const& b) { return b < a; }
static inline bool operator<=(Elem const& a, Elem const& b) { return !(b < a); }
static inline bool operator>=(Elem const& a, Elem const& b) { return !(a < b); }

static inline bool rel(int c, int p, int q)
{
    switch (c) {
    case 1: return p < q;
    case 2: return p > q;
    case 3: return (p % 2) < (q % 2);
    case 4: return p == q;
    case 5: return (p % 2) == (q % 2);
    default: std::abort();
    }
}
static inline bool un(int c, int k) { return c <= 2 ? k == c : k % 2 == 1; }

struct Rel {
    int c;
    bool operator()(Elem const& p, Elem const& q) const
    {
        touch(p);
        touch(q);
        return rel(c, p.k, q.k);
    }
};
struct Un {
    int c;
    bool operator()(Elem const& p) const
    {
        touch(p);
        return un(c, p.k);
    }
};
struct Gen {
    int* cnt;
    Elem operator()() const
    {
        int i = ++*cnt;
        return Elem(i % 3, i);
    }
};
struct T1 {
    Elem operator()(Elem const& e) const { return Elem((e.k + 1) % 3, e.t); }
};
struct T2 {
    Elem operator()(Elem const& p, Elem const& q) const { return Elem((p.k + 2 * q.k) % 3, p.t); }
};
struct Visit {
    std::vector<int>* log;
    int cnt = 0;
    void operator()(Elem& e)
    {
        log->push_back(e.code());
        e.k = (e.k + 1) % 3;
        ++cnt;
    }
};
struct OpA {
    int operator()(int p, int q) const { return (p * 3 + q) % 7; }
};
struct OpB {
    int operator()(int p, int q) const { return (p * 5 + q) % 11; }
};
struct OpS {
    int operator()(int p, int q) const { return (p + q) % 7; }
};
struct TU {
    int operator()(int p) const { return (p * 3 + 1) % 5; }
};

// ------------------------------------------------------------------------------------------
// canary-padded buffers
// ------------------------------------------------------------------------------------------
constexpr int PAD    = 8;
constexpr int CAP    = 16;
constexpr int CANARY = 127;
constexpr int BLANK  = 110;

static inline void put(Elem& e, int code) { e = Elem(code / 16, code % 16); }
static inline void put(int& e, int code) { e = code; }
static inline int code_of(Elem const& e) { return e.k * 16 + e.t; }
static inline int code_of(int e) { return e; }

template <typename T>
struct Buf {
    T d[PAD + CAP + PAD];
    int n = 0;
    T* f() { return d + PAD; }
    T* l() { return d + PAD + n; }
    void set(std::vector<int> const& codes)
    {
        for (auto& e : d) { put(e, CANARY); }
        n = (int)codes.size();
        for (int i = 0; i < n; ++i) { put(d[PAD + i], codes[(size_t)i]); }
    }
    void blanks(int k)
    {
        for (auto& e : d) { put(e, CANARY); }
        n = k;
        for (int i = 0; i < n; ++i) { put(d[PAD + i], BLANK); }
    }
    bool intact() const
    {
        for (int i = 0; i < PAD; ++i) {
            if (code_of(d[i]) != CANARY) { return false; }
        }
        for (int i = PAD + n; i < PAD + CAP + PAD; ++i) {
            if (code_of(d[i]) != CANARY) { return false; }
        }
        return true;
    }
};

struct Case {
    std::vector<int> a, b; // element codes
    int m = 0, v = 0, c = 0;
    bool numeric = false;
    Buf<Elem> A, B, D, D2;
    Buf<int> IA, IB, ID;
    bool used_d = false, used_d2 = false;
    bool rev = false; // category "rev": A holds the sequence back to front, the algorithm sees it through reverse_iterator
    std::vector<int> r;
    Elem value() const { return Elem(v, 7); }
};

// category "rev": the library's reverse_iterator<pointer> as the iterator type of the range.  Position k
// of the (reversed) view of A (or B) corresponds to the base pointer A.l() - k.
static Case* g_case = nullptr;
template <typename T>
static T* vh_mirror(T* p)
{
    auto& A = g_case->A;
    auto& B = g_case->B;
    if (p >= A.d && p < A.d + (PAD + CAP + PAD)) { return A.l() - (p - A.f()); }
    return B.l() - (p - B.f());
}
template <typename T>
static T* base(lib::reverse_iterator<T*> const& it)
{
    return vh_mirror(it.base());
}
namespace vw {
template <typename T>
struct is_rev<lib::reverse_iterator<T*>> : std::true_type { };
struct P_rev {
    static constexpr char const* name = "rev";
    template <typename T>
    using rdm = lib::reverse_iterator<T*>;
    template <typename T>
    using rd = lib::reverse_iterator<T const*>;
    template <typename T>
    using rw = lib::reverse_iterator<T*>;
    template <typename T>
    using out = lib::reverse_iterator<T*>;
    template <typename T>
    using rd2 = lib::reverse_iterator<T const*>;
};
} // namespace vw

// ------------------------------------------------------------------------------------------
// one function per algorithm, templated on the iterator policy
// ------------------------------------------------------------------------------------------
#define RD(T) typename P::template rd<T>
#define RD2(T) typename P::template rd2<T>
#define RW(T) typename P::template rw<T>
#define OUT(T) typename P::template out<T>
#define aF mk<RD(Elem)>(x.A.f())
#define aL mk<RD(Elem)>(x.A.l())
#define bF mk<RD(Elem)>(x.B.f())
#define bL mk<RD(Elem)>(x.B.l())
#define bF2 mk<RD2(Elem)>(x.B.f())
#define bL2 mk<RD2(Elem)>(x.B.l())
#define aFw mk<RW(Elem)>(x.A.f())
#define aLw mk<RW(Elem)>(x.A.l())
#define aMw mk<RW(Elem)>(x.A.f() + x.m)
#define aM mk<RD(Elem)>(x.A.f() + x.m)
#define bFw mk<RW(Elem)>(x.B.f())
#define dO (x.used_d = true, mk<OUT(Elem)>(x.D.f()))
#define d2O (x.used_d2 = true, mk<OUT(Elem)>(x.D2.f()))
#define iF mk<RD(int)>(x.IA.f())
#define iL mk<RD(int)>(x.IA.l())
#define jF mk<RD(int)>(x.IB.f())
#define iFw mk<RW(int)>(x.IA.f())
#define iLw mk<RW(int)>(x.IA.l())
#define idO (x.used_d = true, mk<OUT(int)>(x.ID.f()))
#define posA(it) (int)(base(it) - x.A.f())
#define posB(it) (int)(base(it) - x.B.f())
#define posD(it) (int)(base(it) - x.D.f())
#define posD2(it) (int)(base(it) - x.D2.f())
#define posID(it) (int)(base(it) - x.ID.f())
#define ALG(name)                                                                                                      \
    template <typename P>                                                                                              \
    static void run_##name(Case& x)
#define RET(...) x.r = {__VA_ARGS__}

ALG(find) { RET(posA(lib::find(aF, aL, x.value()))); }
ALG(find_if) { RET(posA(lib::find_if(aF, aL, Un{x.c}))); }
ALG(find_if_not) { RET(posA(lib::find_if_not(aF, aL, Un{x.c}))); }
ALG(all_of) { RET((int)lib::all_of(aF, aL, Un{x.c})); }
ALG(any_of) { RET((int)lib::any_of(aF, aL, Un{x.c})); }
ALG(none_of) { RET((int)lib::none_of(aF, aL, Un{x.c})); }
ALG(count) { RET((int)lib::count(aF, aL, x.value())); }
ALG(count_if) { RET((int)lib::count_if(aF, aL, Un{x.c})); }
ALG(for_each)
{
    std::vector<int> log;
    auto f = lib::for_each(mk<typename P::template rdm<Elem>>(x.A.f()), mk<typename P::template rdm<Elem>>(x.A.l()), Visit{&log, 0});
    RET(f.cnt);
    x.r.insert(x.r.end(), log.begin(), log.end());
}
ALG(for_each_n)
{
    std::vector<int> log;
    auto it = lib::for_each_n(mk<typename P::template rdm<Elem>>(x.A.f()), x.m, Visit{&log, 0});
    RET(posA(it));
    x.r.insert(x.r.end(), log.begin(), log.end());
}
ALG(adjacent_find) { RET(posA(x.c == 0 ? lib::adjacent_find(aF, aL) : lib::adjacent_find(aF, aL, Rel{x.c}))); }
ALG(mismatch3)
{
    auto p = x.c == 0 ? lib::mismatch(aF, aL, bF) : lib::mismatch(aF, aL, bF, Rel{x.c});
    RET(posA(p.first), posB(p.second));
}
ALG(mismatch4)
{
    auto p = x.c == 0 ? lib::mismatch(aF, aL, bF, bL) : lib::mismatch(aF, aL, bF, bL, Rel{x.c});
    RET(posA(p.first), posB(p.second));
}
ALG(equal3) { RET((int)(x.c == 0 ? lib::equal(aF, aL, bF) : lib::equal(aF, aL, bF, Rel{x.c}))); }
ALG(equal4) { RET((int)(x.c == 0 ? lib::equal(aF, aL, bF, bL) : lib::equal(aF, aL, bF, bL, Rel{x.c}))); }
ALG(search) { RET(posA(x.c == 0 ? lib::search(aF, aL, bF, bL) : lib::search(aF, aL, bF, bL, Rel{x.c}))); }
ALG(search_s)
{
    if (x.c == 0) {
        RET(posA(lib::search(aF, aL, lib::default_searcher(bF, bL))));
    } else {
        RET(posA(lib::search(aF, aL, lib::default_searcher(bF, bL, Rel{x.c}))));
    }
}
ALG(find_end) { RET(posA(x.c == 0 ? lib::find_end(aF, aL, bF, bL) : lib::find_end(aF, aL, bF, bL, Rel{x.c}))); }
ALG(search_n)
{
    RET(posA(x.c == 0 ? lib::search_n(aF, aL, x.m, x.value()) : lib::search_n(aF, aL, x.m, x.value(), Rel{x.c})));
}
ALG(find_first_of)
{
    RET(posA(x.c == 0 ? lib::find_first_of(aF, aL, bF2, bL2) : lib::find_first_of(aF, aL, bF2, bL2, Rel{x.c})));
}
ALG(is_permutation3) { RET((int)lib::is_permutation(aF, aL, bF)); }
ALG(is_permutation4) { RET((int)lib::is_permutation(aF, aL, bF, bL)); }
ALG(lexicographical_compare)
{
    RET((int)(x.c == 0 ? lib::lexicographical_compare(aF, aL, bF, bL) : lib::lexicographical_compare(aF, aL, bF, bL, Rel{x.c})));
}
ALG(lower_bound)
{
    RET(posA(x.c == 0 ? lib::lower_bound(aF, aL, x.value()) : lib::lower_bound(aF, aL, x.value(), Rel{x.c})));
}
ALG(upper_bound)
{
    RET(posA(x.c == 0 ? lib::upper_bound(aF, aL, x.value()) : lib::upper_bound(aF, aL, x.value(), Rel{x.c})));
}
ALG(equal_range)
{
    auto p = x.c == 0 ? lib::equal_range(aF, aL, x.value()) : lib::equal_range(aF, aL, x.value(), Rel{x.c});
    RET(posA(p.first), posA(p.second));
}
ALG(binary_search)
{
    RET((int)(x.c == 0 ? lib::binary_search(aF, aL, x.value()) : lib::binary_search(aF, aL, x.value(), Rel{x.c})));
}
ALG(includes) { RET((int)(x.c == 0 ? lib::includes(aF, aL, bF, bL) : lib::includes(aF, aL, bF, bL, Rel{x.c}))); }
ALG(min_element) { RET(posA(x.c == 0 ? lib::min_element(aF, aL) : lib::min_element(aF, aL, Rel{x.c}))); }
ALG(max_element) { RET(posA(x.c == 0 ? lib::max_element(aF, aL) : lib::max_element(aF, aL, Rel{x.c}))); }
ALG(minmax_element)
{
    auto p = x.c == 0 ? lib::minmax_element(aF, aL) : lib::minmax_element(aF, aL, Rel{x.c});
    RET(posA(p.first), posA(p.second));
}
ALG(min)
{
    Elem const& p = x.A.f()[0];
    Elem const& q = x.A.f()[1];
    Elem const& z = x.c == 0 ? lib::min(p, q) : lib::min(p, q, Rel{x.c});
    RET(z.code());
}
ALG(max)
{
    Elem const& p = x.A.f()[0];
    Elem const& q = x.A.f()[1];
    Elem const& z = x.c == 0 ? lib::max(p, q) : lib::max(p, q, Rel{x.c});
    RET(z.code());
}
ALG(minmax)
{
    Elem const& p = x.A.f()[0];
    Elem const& q = x.A.f()[1];
    if (x.c == 0) {
        auto z = lib::minmax(p, q);
        RET(z.first.code(), z.second.code());
    } else {
        auto z = lib::minmax(p, q, Rel{x.c});
        RET(z.first.code(), z.second.code());
    }
}
ALG(clamp)
{
    Elem const& v  = x.A.f()[0];
    Elem const& lo = x.A.f()[1];
    Elem const& hi = x.A.f()[2];
    Elem const& z  = x.c == 0 ? lib::clamp(v, lo, hi) : lib::clamp(v, lo, hi, Rel{x.c});
    RET(z.code());
}
ALG(is_sorted) { RET((int)(x.c == 0 ? lib::is_sorted(aF, aL) : lib::is_sorted(aF, aL, Rel{x.c}))); }
ALG(is_sorted_until) { RET(posA(x.c == 0 ? lib::is_sorted_until(aF, aL) : lib::is_sorted_until(aF, aL, Rel{x.c}))); }
ALG(is_partitioned) { RET((int)lib::is_partitioned(aF, aL, Un{x.c})); }
ALG(partition_point) { RET(posA(lib::partition_point(aF, aL, Un{x.c}))); }
ALG(copy) { RET(posD(lib::copy(aF, aL, dO))); }
// copy through the library's iterator adaptors: reverse_iterator as source, back_insert_iterator as sink
ALG(copy_rev)
{
    auto rf = lib::reverse_iterator<RD(Elem)>(aL);
    auto rl = lib::reverse_iterator<RD(Elem)>(aF);
    RET(posD(lib::copy(rf, rl, dO)));
}
ALG(copy_back)
{
#ifdef VH_STD
    std::vector<Elem> sink;
#else
    etl::static_vector<Elem, CAP> sink;
#endif
    lib::copy(aF, aL, lib::back_inserter(sink));
    x.used_d = true;
    for (size_t i = 0; i < sink.size(); ++i) { x.D.f()[i] = sink[i]; }
    RET((int)sink.size());
}
ALG(copy_if) { RET(posD(lib::copy_if(aF, aL, dO, Un{x.c}))); }
ALG(copy_n) { RET(posD(lib::copy_n(aF, x.m, dO))); }
ALG(copy_backward)
{
    x.used_d = true;
    RET(posD(lib::copy_backward(aF, aL, mk<OUT(Elem)>(x.D.f() + x.A.n + 1))));
}
ALG(move) { RET(posD(lib::move(aFw, aLw, dO))); }
ALG(move_backward)
{
    x.used_d = true;
    RET(posD(lib::move_backward(aFw, aLw, mk<OUT(Elem)>(x.D.f() + x.A.n + 1))));
}
ALG(fill)
{
    lib::fill(aFw, aLw, x.value());
    RET();
}
ALG(fill_n) { RET((int)(base(lib::fill_n(mk<OUT(Elem)>(x.A.f()), x.m, x.value())) - x.A.f())); }
ALG(generate)
{
    int cnt = 0;
    lib::generate(aFw, aLw, Gen{&cnt});
    RET(cnt);
}
ALG(generate_n)
{
    int cnt = 0;
    auto it = lib::generate_n(mk<OUT(Elem)>(x.A.f()), x.m, Gen{&cnt});
    RET((int)(base(it) - x.A.f()), cnt);
}
ALG(transform1) { RET(posD(lib::transform(aF, aL, dO, T1{}))); }
ALG(transform2) { RET(posD(lib::transform(aF, aL, bF, dO, T2{}))); }
ALG(replace)
{
    lib::replace(aFw, aLw, x.value(), Elem(x.m, 7));
    RET();
}
ALG(replace_if)
{
    lib::replace_if(aFw, aLw, Un{x.c}, Elem(x.m, 7));
    RET();
}
ALG(reverse)
{
    lib::reverse(aFw, aLw);
    RET();
}
ALG(reverse_copy) { RET(posD(lib::reverse_copy(aF, aL, dO))); }
ALG(rotate) { RET(posA(lib::rotate(aFw, aMw, aLw))); }
ALG(rotate_copy) { RET(posD(lib::rotate_copy(aF, aM, aL, dO))); }
ALG(swap_ranges) { RET(posB(lib::swap_ranges(aFw, aLw, bFw))); }
ALG(iter_swap)
{
    lib::iter_swap(aFw, mk<RW(Elem)>(x.A.f() + 1));
    RET();
}
#define SETOP(name)                                                                                                    \
    ALG(name) { RET(posD(x.c == 0 ? lib::name(aF, aL, bF, bL, dO) : lib::name(aF, aL, bF, bL, dO, Rel{x.c}))); }
SETOP(merge)
SETOP(set_union)
SETOP(set_intersection)
SETOP(set_difference)
SETOP(set_symmetric_difference)
ALG(inplace_merge)
{
    if (x.c == 0) {
        lib::inplace_merge(aFw, aMw, aLw);
    } else {
        lib::inplace_merge(aFw, aMw, aLw, Rel{x.c});
    }
    RET();
}
ALG(unique) { RET(posA(x.c == 0 ? lib::unique(aFw, aLw) : lib::unique(aFw, aLw, Rel{x.c}))); }
ALG(unique_copy) { RET(posD(x.c == 0 ? lib::unique_copy(aF, aL, dO) : lib::unique_copy(aF, aL, dO, Rel{x.c}))); }
ALG(remove) { RET(posA(lib::remove(aFw, aLw, x.value()))); }
ALG(remove_if) { RET(posA(lib::remove_if(aFw, aLw, Un{x.c}))); }
ALG(remove_copy) { RET(posD(lib::remove_copy(aF, aL, dO, x.value()))); }
ALG(remove_copy_if) { RET(posD(lib::remove_copy_if(aF, aL, dO, Un{x.c}))); }
ALG(partition) { RET(posA(lib::partition(aFw, aLw, Un{x.c}))); }
ALG(stable_partition) { RET(posA(lib::stable_partition(aFw, aLw, Un{x.c}))); }
ALG(partition_copy)
{
    auto p = lib::partition_copy(aF, aL, dO, d2O, Un{x.c});
    RET(posD(p.first), posD2(p.second));
}
ALG(shift_left) { RET(posA(lib::shift_left(aFw, aLw, x.m))); }
ALG(shift_right) { RET(posA(lib::shift_right(aFw, aLw, x.m))); }

#ifdef VH_STD
    // tetl extensions have no std counterpart: calibrate their specification on the std algorithm
    // with the same contract (sorted permutation / stable sorted permutation)
    #define bubble_sort stable_sort
    #define exchange_sort sort
    #define gnome_sort sort
    #define insertion_sort stable_sort
    #define merge_sort stable_sort
#endif
#define SORTALG(name, fn)                                                                                              \
    ALG(name)                                                                                                          \
    {                                                                                                                  \
        if (x.c == 0) {                                                                                                \
            lib::fn(aFw, aLw);                                                                                         \
        } else {                                                                                                       \
            lib::fn(aFw, aLw, Rel{x.c});                                                                               \
        }                                                                                                              \
        RET();                                                                                                         \
    }
SORTALG(sort, sort)
SORTALG(stable_sort, stable_sort)
SORTALG(bubble_sort_, bubble_sort)
SORTALG(exchange_sort_, exchange_sort)
SORTALG(gnome_sort_, gnome_sort)
SORTALG(insertion_sort_, insertion_sort)
SORTALG(merge_sort_, merge_sort)
#define MIDSORT(name)                                                                                                  \
    ALG(name)                                                                                                          \
    {                                                                                                                  \
        if (x.c == 0) {                                                                                                \
            lib::name(aFw, aMw, aLw);                                                                                  \
        } else {                                                                                                       \
            lib::name(aFw, aMw, aLw, Rel{x.c});                                                                        \
        }                                                                                                              \
        RET();                                                                                                         \
    }
MIDSORT(partial_sort)
MIDSORT(nth_element)

// [reverse.iterators]: relational operators, difference, base() of two reverse iterators on positions i, j
ALG(rit_cmp)
{
    using RI = lib::reverse_iterator<RD(Elem)>;
    RI ri(mk<RD(Elem)>(x.A.f() + x.m / 8));
    RI rj(mk<RD(Elem)>(x.A.f() + x.m % 8));
    RET((int)(ri == rj), (int)(ri != rj), (int)(ri < rj), (int)(ri <= rj), (int)(ri > rj), (int)(ri >= rj), (int)(ri - rj),
        posA(ri.base()), posA(rj.base()));
}
// navigation and element access of a reverse iterator on position i with offset k (only what stays in range)
ALG(rit_nav)
{
    using RI = lib::reverse_iterator<RD(Elem)>;
    int const NA = -99;
    int i = x.m / 16, k = x.m % 16 - 8, n = x.A.n;
    auto in  = [n](int p) { return p >= 0 && p <= n; };
    auto at  = [&x](RI const& it) { return posA(it.base()); };
    auto mki = [&x, i] { return RI(mk<RD(Elem)>(x.A.f() + i)); };
    x.r.assign(14, NA);
    if (in(i - k)) {
        x.r[0] = at(mki() + k);
        x.r[1] = at(k + mki());
        RI t   = mki();
        x.r[2] = at(t += k);
    }
    if (in(i + k)) {
        x.r[3] = at(mki() - k);
        RI t   = mki();
        x.r[4] = at(t -= k);
    }
    if (i - k >= 1 && i - k <= n) { x.r[5] = mki()[k].code(); }
    if (i >= 1) {
        x.r[6] = (*mki()).code();
        x.r[7] = mki()->code();
        RI t   = mki();
        x.r[8] = at(++t);
        RI u   = mki();
        RI old = u++;
        x.r[9] = at(old), x.r[10] = at(u);
    }
    if (i < n) {
        RI t    = mki();
        x.r[11] = at(--t);
        RI u    = mki();
        RI old  = u--;
        x.r[12] = at(old), x.r[13] = at(u);
    }
}
// [iterator.operations] next / advance / prev / distance from position i with offset k
template <typename P, bool Back, bool Neg>
static void iter_nav_impl(Case& x)
{
    int const NA = -99;
    int i = x.m / 16, k = x.m % 16 - 8, n = x.A.n;
    auto in = [n](int p) { return p >= 0 && p <= n; };
    auto it = [&x](int p) { return mk<RD(Elem)>(x.A.f() + p); };
    x.r.assign(6, NA);
    if (in(i + k)) {
        x.r[0] = posA(lib::next(it(i), k));
        auto t = it(i);
        lib::advance(t, k);
        x.r[1] = posA(t);
        if (k >= 0 || Neg) { x.r[3] = (int)lib::distance(it(i), it(i + k)); }
    }
    if (i < n) { x.r[4] = posA(lib::next(it(i))); }
    if constexpr (Back) {
        if (in(i - k)) { x.r[2] = posA(lib::prev(it(i), k)); }
        if (i > 0) { x.r[5] = posA(lib::prev(it(i))); }
    }
}
ALG(iter_nav) { iter_nav_impl<P, true, false>(x); }
ALG(iter_nav_ra) { iter_nav_impl<P, true, true>(x); }
ALG(iter_nav_fwd) { iter_nav_impl<P, false, false>(x); }

// <numeric> on plain integers
ALG(iota)
{
    lib::iota(iFw, iLw, x.v);
    RET();
}
ALG(accumulate) { RET(x.c == 0 ? lib::accumulate(iF, iL, x.v) : lib::accumulate(iF, iL, x.v, OpA{})); }
ALG(reduce)
{
    RET(x.c == 0 ? lib::reduce(iF, iL) : x.c == 1 ? lib::reduce(iF, iL, x.v) : lib::reduce(iF, iL, x.v, OpS{}));
}
ALG(inner_product)
{
    RET(x.c == 0 ? lib::inner_product(iF, iL, jF, x.v) : lib::inner_product(iF, iL, jF, x.v, OpA{}, OpB{}));
}
ALG(transform_reduce2)
{
    RET(x.c == 0 ? lib::transform_reduce(iF, iL, jF, x.v) : lib::transform_reduce(iF, iL, jF, x.v, OpS{}, OpB{}));
}
ALG(transform_reduce1) { RET(lib::transform_reduce(iF, iL, x.v, OpS{}, TU{})); }
ALG(partial_sum) { RET(posID(x.c == 0 ? lib::partial_sum(iF, iL, idO) : lib::partial_sum(iF, iL, idO, OpA{}))); }
ALG(adjacent_difference)
{
    RET(posID(x.c == 0 ? lib::adjacent_difference(iF, iL, idO) : lib::adjacent_difference(iF, iL, idO, OpA{})));
}

#ifdef VH_PROBE_FN
template void VH_PROBE_FN<VH_PROBE_POL>(Case&);
int main() { return 0; }
#else

// ------------------------------------------------------------------------------------------
// input domains (mirror of spec/AlgoDom.tla; the trace specification re-checks membership,
// distinctness and the count, so a divergence here is a model failure, never a verdict)
// ------------------------------------------------------------------------------------------
enum A1K { A_ANY, A_SORTED, A_PART, A_PAIR, A_MID, A_LEN2, A_CLAMP, A_RAMP };
enum A2K { B_NONE, B_SAME, B_NEEDLE, B_SNEEDLE };
enum MK { M_0, M_M1N, M_0N, M_0N1, M_M1N1, M_KEYS, M_INPLACE, M_PAIRPOS, M_POSOFF, M_POSOFF0 };
enum VK { V_0, V_KEYS, V_REDUCE, V_ONE };
using Cs = std::vector<int>;
static Cs const C0{0}, CU{0, 1, 2, 3}, CC{0, 1, 2, 3}, CB{0, 1, 4, 5}, CE{0, 4, 5}, C01{0, 1}, C012{0, 1, 2};

struct Shape {
    Cs cs;
    A1K a1;
    A2K a2;
    MK mk;
    VK vk;
    bool numeric;
};
struct Run {
    char const* cat;
    void (*fn)(Case&);
};
struct Alg {
    char const* name;
    Shape sh;
    std::vector<Run> runs;
    std::vector<char const*> unsupported;
};

#define R_(fn, POL) Run{POL::name, &run_##fn<POL>}

static std::vector<Alg> const& table()
{
    static std::vector<Alg> t = {
        {"find", {C0, A_ANY, B_NONE, M_0, V_KEYS, false}, {R_(find, P_ptr), R_(find, P_io)}, {}},
        {"find_if", {CU, A_ANY, B_NONE, M_0, V_0, false}, {R_(find_if, P_ptr), R_(find_if, P_io)}, {}},
        {"find_if_not", {CU, A_ANY, B_NONE, M_0, V_0, false}, {R_(find_if_not, P_ptr), R_(find_if_not, P_io)}, {}},
        {"all_of", {CU, A_ANY, B_NONE, M_0, V_0, false}, {R_(all_of, P_ptr), R_(all_of, P_io)}, {}},
        {"any_of", {CU, A_ANY, B_NONE, M_0, V_0, false}, {R_(any_of, P_ptr), R_(any_of, P_io)}, {}},
        {"none_of", {CU, A_ANY, B_NONE, M_0, V_0, false}, {R_(none_of, P_ptr), R_(none_of, P_io)}, {}},
        {"count", {C0, A_ANY, B_NONE, M_0, V_KEYS, false}, {R_(count, P_ptr), R_(count, P_io)}, {}},
        {"count_if", {CU, A_ANY, B_NONE, M_0, V_0, false}, {R_(count_if, P_ptr), R_(count_if, P_io)}, {}},
        {"for_each", {C0, A_ANY, B_NONE, M_0, V_0, false}, {R_(for_each, P_ptr), R_(for_each, P_io)}, {}},
        {"for_each_n", {C0, A_ANY, B_NONE, M_0N, V_0, false}, {R_(for_each_n, P_ptr), R_(for_each_n, P_io)}, {}},
        {"adjacent_find", {CB, A_ANY, B_NONE, M_0, V_0, false}, {R_(adjacent_find, P_ptr), R_(adjacent_find, P_fwd)}, {}},
        {"mismatch3", {CB, A_PAIR, B_SAME, M_0, V_0, false}, {R_(mismatch3, P_ptr), R_(mismatch3, P_io)}, {}},
        {"mismatch4", {CB, A_MID, B_NEEDLE, M_0, V_0, false}, {R_(mismatch4, P_ptr), R_(mismatch4, P_io)}, {}},
        {"equal3", {CB, A_PAIR, B_SAME, M_0, V_0, false}, {R_(equal3, P_ptr), R_(equal3, P_io)}, {}},
        {"equal4", {CB, A_MID, B_NEEDLE, M_0, V_0, false},
         {R_(equal4, P_rev), R_(equal4, P_ptr), R_(equal4, P_ra), R_(equal4, P_io), R_(equal4, P_fwd)}, {}},
        {"search", {CB, A_MID, B_NEEDLE, M_0, V_0, false}, {R_(search, P_ptr), R_(search, P_fwd)}, {}},
        {"search_s", {CB, A_MID, B_NEEDLE, M_0, V_0, false}, {R_(search_s, P_ptr), R_(search_s, P_fwd)}, {}},
        {"find_end", {CB, A_MID, B_NEEDLE, M_0, V_0, false}, {R_(find_end, P_ptr), R_(find_end, P_fwd)}, {}},
        {"search_n", {CB, A_MID, B_NONE, M_M1N1, V_KEYS, false},
         {R_(search_n, P_ptr),
    #if defined(VH_STD) || defined(VH_OK_search_n_P_fwd)
          R_(search_n, P_fwd),
    #endif
    #if defined(VH_STD) || defined(VH_OK_search_n_P_ra)
          R_(search_n, P_ra),
    #endif
         },
         {
    #if !(defined(VH_STD) || defined(VH_OK_search_n_P_fwd))
             "fwd",
    #endif
    #if !(defined(VH_STD) || defined(VH_OK_search_n_P_ra))
             "ra",
    #endif
         }},
        {"find_first_of", {CB, A_MID, B_NEEDLE, M_0, V_0, false}, {R_(find_first_of, P_ptr), R_(find_first_of, P_io)}, {}},
        {"is_permutation3", {C0, A_PAIR, B_SAME, M_0, V_0, false}, {R_(is_permutation3, P_ptr), R_(is_permutation3, P_fwd)}, {}},
        {"is_permutation4", {C0, A_MID, B_NEEDLE, M_0, V_0, false},
         {R_(is_permutation4, P_rev), R_(is_permutation4, P_ptr), R_(is_permutation4, P_ra), R_(is_permutation4, P_fwd)}, {}},
        {"lexicographical_compare", {CC, A_MID, B_NEEDLE, M_0, V_0, false},
         {R_(lexicographical_compare, P_ptr), R_(lexicographical_compare, P_io)}, {}},
        {"lower_bound", {CC, A_SORTED, B_NONE, M_0, V_KEYS, false}, {R_(lower_bound, P_rev), R_(lower_bound, P_ptr), R_(lower_bound, P_fwd)}, {}},
        {"upper_bound", {CC, A_SORTED, B_NONE, M_0, V_KEYS, false}, {R_(upper_bound, P_ptr), R_(upper_bound, P_fwd)}, {}},
        {"equal_range", {CC, A_SORTED, B_NONE, M_0, V_KEYS, false}, {R_(equal_range, P_ptr), R_(equal_range, P_fwd)}, {}},
        {"binary_search", {CC, A_SORTED, B_NONE, M_0, V_KEYS, false}, {R_(binary_search, P_ptr), R_(binary_search, P_fwd)}, {}},
        {"includes", {CC, A_SORTED, B_SNEEDLE, M_0, V_0, false}, {R_(includes, P_ptr), R_(includes, P_io)}, {}},
        {"min_element", {CC, A_ANY, B_NONE, M_0, V_0, false}, {R_(min_element, P_ptr), R_(min_element, P_fwd)}, {}},
        {"max_element", {CC, A_ANY, B_NONE, M_0, V_0, false}, {R_(max_element, P_ptr), R_(max_element, P_fwd)}, {}},
        {"minmax_element", {CC, A_ANY, B_NONE, M_0, V_0, false}, {R_(minmax_element, P_ptr), R_(minmax_element, P_fwd)}, {}},
        {"min", {CC, A_LEN2, B_NONE, M_0, V_0, false}, {R_(min, P_ptr)}, {}},
        {"max", {CC, A_LEN2, B_NONE, M_0, V_0, false}, {R_(max, P_ptr)}, {}},
        {"minmax", {CC, A_LEN2, B_NONE, M_0, V_0, false}, {R_(minmax, P_ptr)}, {}},
        {"clamp", {CC, A_CLAMP, B_NONE, M_0, V_0, false}, {R_(clamp, P_ptr)}, {}},
        {"is_sorted", {CC, A_ANY, B_NONE, M_0, V_0, false}, {R_(is_sorted, P_ptr), R_(is_sorted, P_fwd)}, {}},
        {"is_sorted_until", {CC, A_ANY, B_NONE, M_0, V_0, false}, {R_(is_sorted_until, P_ptr), R_(is_sorted_until, P_fwd)}, {}},
        {"is_partitioned", {CU, A_ANY, B_NONE, M_0, V_0, false}, {R_(is_partitioned, P_ptr), R_(is_partitioned, P_io)}, {}},
        {"partition_point", {CU, A_PART, B_NONE, M_0, V_0, false}, {R_(partition_point, P_ptr), R_(partition_point, P_fwd)}, {}},
        {"copy", {C0, A_ANY, B_NONE, M_0, V_0, false}, {R_(copy, P_ptr), R_(copy, P_io)}, {}},
        {"copy_rev", {C0, A_ANY, B_NONE, M_0, V_0, false}, {R_(copy_rev, P_ptr), R_(copy_rev, P_bidi)}, {}},
        {"copy_back", {C0, A_ANY, B_NONE, M_0, V_0, false}, {R_(copy_back, P_ptr), R_(copy_back, P_io)}, {}},
        {"copy_if", {CU, A_ANY, B_NONE, M_0, V_0, false}, {R_(copy_if, P_ptr), R_(copy_if, P_io)}, {}},
        {"copy_n", {C0, A_ANY, B_NONE, M_M1N, V_0, false}, {R_(copy_n, P_ptr), R_(copy_n, P_io)}, {}},
        {"copy_backward", {C0, A_ANY, B_NONE, M_0, V_0, false}, {R_(copy_backward, P_ptr), R_(copy_backward, P_bidi)}, {}},
        {"move", {C0, A_ANY, B_NONE, M_0, V_0, false}, {R_(move, P_ptr), R_(move, P_fwd)}, {}},
        {"move_backward", {C0, A_ANY, B_NONE, M_0, V_0, false}, {R_(move_backward, P_ptr), R_(move_backward, P_bidi)}, {}},
        {"fill", {C0, A_ANY, B_NONE, M_0, V_KEYS, false}, {R_(fill, P_ptr), R_(fill, P_fwd)}, {}},
        {"fill_n", {C0, A_ANY, B_NONE, M_M1N, V_KEYS, false}, {R_(fill_n, P_ptr), R_(fill_n, P_io)}, {}},
        {"generate", {C0, A_ANY, B_NONE, M_0, V_0, false}, {R_(generate, P_ptr), R_(generate, P_fwd)}, {}},
        {"generate_n", {C0, A_ANY, B_NONE, M_M1N, V_0, false}, {R_(generate_n, P_ptr), R_(generate_n, P_io)}, {}},
        {"transform1", {C0, A_ANY, B_NONE, M_0, V_0, false}, {R_(transform1, P_ptr), R_(transform1, P_io)}, {}},
        {"transform2", {C0, A_PAIR, B_SAME, M_0, V_0, false}, {R_(transform2, P_ptr), R_(transform2, P_io)}, {}},
        {"replace", {C0, A_ANY, B_NONE, M_KEYS, V_KEYS, false}, {R_(replace, P_ptr), R_(replace, P_fwd)}, {}},
        {"replace_if", {CU, A_ANY, B_NONE, M_KEYS, V_0, false}, {R_(replace_if, P_ptr), R_(replace_if, P_fwd)}, {}},
        {"reverse", {C0, A_ANY, B_NONE, M_0, V_0, false}, {R_(reverse, P_rev), R_(reverse, P_ptr), R_(reverse, P_bidi), R_(reverse, P_ra)}, {}},
        {"reverse_copy", {C0, A_ANY, B_NONE, M_0, V_0, false}, {R_(reverse_copy, P_ptr), R_(reverse_copy, P_bidi)}, {}},
        {"rotate", {C0, A_ANY, B_NONE, M_0N, V_0, false},
         {R_(rotate, P_rev), R_(rotate, P_ptr), R_(rotate, P_fwd), R_(rotate, P_bidi), R_(rotate, P_ra)}, {}},
        {"rotate_copy", {C0, A_ANY, B_NONE, M_0N, V_0, false}, {R_(rotate_copy, P_ptr), R_(rotate_copy, P_fwd)}, {}},
        {"swap_ranges", {C0, A_PAIR, B_SAME, M_0, V_0, false}, {R_(swap_ranges, P_ptr), R_(swap_ranges, P_fwd)}, {}},
        {"iter_swap", {C0, A_LEN2, B_NONE, M_0, V_0, false}, {R_(iter_swap, P_ptr), R_(iter_swap, P_fwd)}, {}},
        {"merge", {CC, A_SORTED, B_SNEEDLE, M_0, V_0, false}, {R_(merge, P_ptr), R_(merge, P_io)}, {}},
        {"set_union", {CC, A_SORTED, B_SNEEDLE, M_0, V_0, false}, {R_(set_union, P_ptr), R_(set_union, P_io)}, {}},
        {"set_intersection", {CC, A_SORTED, B_SNEEDLE, M_0, V_0, false}, {R_(set_intersection, P_ptr), R_(set_intersection, P_io)}, {}},
        {"set_difference", {CC, A_SORTED, B_SNEEDLE, M_0, V_0, false}, {R_(set_difference, P_ptr), R_(set_difference, P_io)}, {}},
        {"set_symmetric_difference", {CC, A_SORTED, B_SNEEDLE, M_0, V_0, false},
         {R_(set_symmetric_difference, P_ptr), R_(set_symmetric_difference, P_io)}, {}},
        {"inplace_merge", {CC, A_ANY, B_NONE, M_INPLACE, V_0, false},
         {R_(inplace_merge, P_rev), R_(inplace_merge, P_ptr), R_(inplace_merge, P_ra),
    #if defined(VH_STD) || defined(VH_OK_inplace_merge_P_bidi)
          R_(inplace_merge, P_bidi),
    #endif
         },
         {
    #if !(defined(VH_STD) || defined(VH_OK_inplace_merge_P_bidi))
             "bidi",
    #endif
         }},
        {"unique", {CE, A_ANY, B_NONE, M_0, V_0, false}, {R_(unique, P_rev), R_(unique, P_ptr), R_(unique, P_fwd)}, {}},
        {"unique_copy", {CE, A_ANY, B_NONE, M_0, V_0, false},
         {R_(unique_copy, P_ptr), R_(unique_copy, P_fwd),
    #if defined(VH_STD) || defined(VH_OK_unique_copy_P_io)
          R_(unique_copy, P_io),
    #endif
         },
         {
    #if !(defined(VH_STD) || defined(VH_OK_unique_copy_P_io))
             "io",
    #endif
         }},
        {"remove", {C0, A_ANY, B_NONE, M_0, V_KEYS, false}, {R_(remove, P_ptr), R_(remove, P_fwd)}, {}},
        {"remove_if", {CU, A_ANY, B_NONE, M_0, V_0, false}, {R_(remove_if, P_rev), R_(remove_if, P_ptr), R_(remove_if, P_fwd)}, {}},
        {"remove_copy", {C0, A_ANY, B_NONE, M_0, V_KEYS, false}, {R_(remove_copy, P_ptr), R_(remove_copy, P_io)}, {}},
        {"remove_copy_if", {CU, A_ANY, B_NONE, M_0, V_0, false}, {R_(remove_copy_if, P_ptr), R_(remove_copy_if, P_io)}, {}},
        {"partition", {CU, A_ANY, B_NONE, M_0, V_0, false}, {R_(partition, P_rev), R_(partition, P_ptr), R_(partition, P_fwd), R_(partition, P_bidi)}, {}},
        {"stable_partition", {CU, A_ANY, B_NONE, M_0, V_0, false},
         {R_(stable_partition, P_rev), R_(stable_partition, P_ptr), R_(stable_partition, P_ra),
    #if defined(VH_STD) || defined(VH_OK_stable_partition_P_bidi)
          R_(stable_partition, P_bidi),
    #endif
         },
         {
    #if !(defined(VH_STD) || defined(VH_OK_stable_partition_P_bidi))
             "bidi",
    #endif
         }},
        {"partition_copy", {CU, A_ANY, B_NONE, M_0, V_0, false}, {R_(partition_copy, P_ptr), R_(partition_copy, P_io)}, {}},
        {"shift_left", {C0, A_ANY, B_NONE, M_0N1, V_0, false},
         {R_(shift_left, P_rev), R_(shift_left, P_ptr), R_(shift_left, P_fwd), R_(shift_left, P_bidi)}, {}},
        {"shift_right", {C0, A_ANY, B_NONE, M_0N1, V_0, false},
         {R_(shift_right, P_rev), R_(shift_right, P_ptr), R_(shift_right, P_bidi),
    #if defined(VH_STD) || defined(VH_OK_shift_right_P_fwd)
          R_(shift_right, P_fwd),
    #endif
         },
         {
    #if !(defined(VH_STD) || defined(VH_OK_shift_right_P_fwd))
             "fwd",
    #endif
         }},
        {"sort", {CC, A_ANY, B_NONE, M_0, V_0, false}, {R_(sort, P_rev), R_(sort, P_ptr), R_(sort, P_ra)}, {}},
        {"stable_sort", {CC, A_ANY, B_NONE, M_0, V_0, false}, {R_(stable_sort, P_rev), R_(stable_sort, P_ptr), R_(stable_sort, P_ra)}, {}},
        {"bubble_sort", {CC, A_ANY, B_NONE, M_0, V_0, false}, {R_(bubble_sort_, P_rev), R_(bubble_sort_, P_ptr), R_(bubble_sort_, P_ra)}, {}},
        {"exchange_sort", {CC, A_ANY, B_NONE, M_0, V_0, false}, {R_(exchange_sort_, P_rev), R_(exchange_sort_, P_ptr), R_(exchange_sort_, P_ra)}, {}},
        {"gnome_sort", {CC, A_ANY, B_NONE, M_0, V_0, false}, {R_(gnome_sort_, P_rev), R_(gnome_sort_, P_ptr), R_(gnome_sort_, P_ra)}, {}},
        {"insertion_sort", {CC, A_ANY, B_NONE, M_0, V_0, false}, {R_(insertion_sort_, P_rev), R_(insertion_sort_, P_ptr), R_(insertion_sort_, P_ra)}, {}},
        {"merge_sort", {CC, A_ANY, B_NONE, M_0, V_0, false}, {R_(merge_sort_, P_rev), R_(merge_sort_, P_ptr), R_(merge_sort_, P_ra)}, {}},
        {"partial_sort", {CC, A_ANY, B_NONE, M_0N, V_0, false}, {R_(partial_sort, P_rev), R_(partial_sort, P_ptr), R_(partial_sort, P_ra)}, {}},
        {"nth_element", {CC, A_ANY, B_NONE, M_0N, V_0, false}, {R_(nth_element, P_rev), R_(nth_element, P_ptr), R_(nth_element, P_ra)}, {}},
        {"rit_cmp", {C0, A_RAMP, B_NONE, M_PAIRPOS, V_0, false}, {R_(rit_cmp, P_ptr), R_(rit_cmp, P_ra)}, {}},
        {"rit_nav", {C0, A_RAMP, B_NONE, M_POSOFF, V_0, false}, {R_(rit_nav, P_ptr), R_(rit_nav, P_ra)}, {}},
        {"iter_nav_ra", {C0, A_RAMP, B_NONE, M_POSOFF, V_0, false}, {R_(iter_nav_ra, P_ptr), R_(iter_nav_ra, P_ra), R_(iter_nav_ra, P_rev)}, {}},
        {"iter_nav", {C0, A_RAMP, B_NONE, M_POSOFF, V_0, false}, {R_(iter_nav, P_bidi)}, {}},
        {"iter_nav_fwd", {C0, A_RAMP, B_NONE, M_POSOFF0, V_0, false}, {R_(iter_nav_fwd, P_fwd), R_(iter_nav_fwd, P_io)}, {}},
        {"iota", {C0, A_ANY, B_NONE, M_0, V_KEYS, true}, {R_(iota, P_ptr), R_(iota, P_fwd)}, {}},
        {"accumulate", {C01, A_ANY, B_NONE, M_0, V_KEYS, true}, {R_(accumulate, P_ptr), R_(accumulate, P_io)}, {}},
        {"reduce", {C012, A_ANY, B_NONE, M_0, V_REDUCE, true}, {R_(reduce, P_ptr), R_(reduce, P_io)}, {}},
        {"inner_product", {C01, A_PAIR, B_SAME, M_0, V_ONE, true}, {R_(inner_product, P_ptr), R_(inner_product, P_io)}, {}},
        {"transform_reduce1", {C0, A_ANY, B_NONE, M_0, V_KEYS, true}, {R_(transform_reduce1, P_ptr), R_(transform_reduce1, P_io)}, {}},
        {"transform_reduce2", {C01, A_PAIR, B_SAME, M_0, V_ONE, true}, {R_(transform_reduce2, P_ptr), R_(transform_reduce2, P_io)}, {}},
        {"partial_sum", {C01, A_ANY, B_NONE, M_0, V_0, true}, {R_(partial_sum, P_ptr), R_(partial_sum, P_io)}, {}},
        {"adjacent_difference", {C01, A_ANY, B_NONE, M_0, V_0, true}, {R_(adjacent_difference, P_ptr), R_(adjacent_difference, P_io)}, {}},
    };
    return t;
}

// ------------------------------------------------------------------------------------------
// domain file, enumeration, emission
// ------------------------------------------------------------------------------------------
struct Domain {
    int MaxLen = 0, MaxLen2 = 0, MaxPair = 0, MaxA2 = 0;
    std::vector<std::vector<int>> seqs; // key sequences, sorted by (length, lexicographic)
};

static int json_int(std::string const& line, char const* key)
{
    auto p = line.find(std::string("\"") + key + "\"");
    if (p == std::string::npos) {
        std::fprintf(stderr, "domain file: missing %s\n", key);
        std::exit(2);
    }
    p = line.find(':', p);
    return std::atoi(line.c_str() + p + 1);
}

static Domain read_domain(char const* path)
{
    Domain d;
    std::FILE* f = std::fopen(path, "r");
    if (!f) {
        std::fprintf(stderr, "cannot open %s\n", path);
        std::exit(2);
    }
    char buf[4096];
    while (std::fgets(buf, sizeof buf, f)) {
        std::string line(buf);
        if (line.find("\"cfg\"") != std::string::npos) {
            d.MaxLen  = json_int(line, "MaxLen");
            d.MaxLen2 = json_int(line, "MaxLen2");
            d.MaxPair = json_int(line, "MaxPair");
            d.MaxA2   = json_int(line, "MaxA2");
        } else if (line.find("\"seq\"") != std::string::npos) {
            auto p = line.find("\"s\"");
            p      = line.find('[', p);
            auto q = line.find(']', p);
            std::vector<int> s;
            for (auto i = p + 1; i < q; ++i) {
                if (line[i] >= '0' && line[i] <= '9') { s.push_back(line[i] - '0'); }
            }
            d.seqs.push_back(s);
        }
    }
    std::fclose(f);
    std::sort(d.seqs.begin(), d.seqs.end(), [](auto const& p, auto const& q) {
        return p.size() != q.size() ? p.size() < q.size() : p < q;
    });
    if (d.MaxLen == 0 || d.seqs.empty()) {
        std::fprintf(stderr, "domain file incomplete\n");
        std::exit(2);
    }
    return d;
}

static bool sorted_k(std::vector<int> const& k, int c, size_t from, size_t to)
{
    int cc = c == 0 ? 1 : c;
    for (size_t i = from; i < to; ++i) {
        for (size_t j = i + 1; j < to; ++j) {
            if (rel(cc, k[j], k[i])) { return false; }
        }
    }
    return true;
}
static bool partitioned_k(std::vector<int> const& k, int c)
{
    size_t i = 0;
    while (i < k.size() && un(c, k[i])) { ++i; }
    for (; i < k.size(); ++i) {
        if (un(c, k[i])) { return false; }
    }
    return true;
}

#ifndef VH_HANG_SECONDS
    #define VH_HANG_SECONDS 10
#endif
static sigjmp_buf g_jmp;
static int g_hung = 0;
static void on_alarm(int) { siglongjmp(g_jmp, 1); }
// a fault inside the library call (e.g. an algorithm running off its range) is recorded as an event
// ("hang":2, judged as kind "crash"), the rest of the group is abandoned and the next group is run
static void on_fault(int) { siglongjmp(g_jmp, 2); }
static void install_handlers()
{
    std::signal(SIGVTALRM, on_alarm);
    std::signal(SIGSEGV, on_fault);
    std::signal(SIGBUS, on_fault);
    std::signal(SIGFPE, on_fault);
    std::signal(SIGILL, on_fault);
}

static std::string g_out;
static void put_arr(char const* key, std::vector<int> const& v)
{
    g_out += ",\"";
    g_out += key;
    g_out += "\":[";
    char tmp[16];
    for (size_t i = 0; i < v.size(); ++i) {
        std::snprintf(tmp, sizeof tmp, i ? ",%d" : "%d", v[i]);
        g_out += tmp;
    }
    g_out += "]";
}
template <typename T>
static std::vector<int> codes(Buf<T>& b)
{
    std::vector<int> v;
    for (int i = 0; i < b.n; ++i) { v.push_back(code_of(b.f()[i])); }
    return v;
}

static void run_case(Alg const& alg, Run const& run, std::vector<int> const& ka, std::vector<int> const& kb, int m, int v, int c)
{
    static Case x; // buffers are fully re-initialised for every case
    Shape const& sh = alg.sh;
    int n           = (int)ka.size();
    int nb          = (int)kb.size();
    x.a.clear();
    x.b.clear();
    for (int i = 0; i < n; ++i) { x.a.push_back(ka[(size_t)i] * 16 + i + 1); }
    for (int i = 0; i < nb; ++i) { x.b.push_back(kb[(size_t)i] * 16 + 8 + i + 1); }
    x.m = m, x.v = v, x.c = c, x.numeric = sh.numeric;
    x.used_d = x.used_d2 = false;
    x.r.clear();
    int dl = n + nb + 2;
    if (sh.numeric) {
        x.IA.set(x.a), x.IB.set(x.b), x.ID.blanks(dl);
    } else {
        x.rev  = std::strcmp(run.cat, "rev") == 0;
        g_case = &x;
        x.A.set(x.rev ? std::vector<int>(x.a.rbegin(), x.a.rend()) : x.a);
        x.B.set(x.rev ? std::vector<int>(x.b.rbegin(), x.b.rend()) : x.b), x.D.blanks(dl), x.D2.blanks(dl);
    }
    std::memset(g_touch, 0, sizeof g_touch);
    g_selfmove = 0;
    // watchdog: an algorithm that does not return within VH_HANG_SECONDS on a <= 6 element input is
    // recorded as a "hang" event (judged by the trace specification); the rest of the group is abandoned
    g_hung = 0;
    int jr = sigsetjmp(g_jmp, 1);
    if (jr == 0) {
        // CPU time, not wall-clock: a heavily loaded machine must not turn a slow schedule into a "hang"
        struct itimerval tv_on{{0, 0}, {VH_HANG_SECONDS, 0}}, tv_off{{0, 0}, {0, 0}};
        setitimer(ITIMER_VIRTUAL, &tv_on, nullptr);
        run.fn(x);
        setitimer(ITIMER_VIRTUAL, &tv_off, nullptr);
    } else {
        g_hung = jr;
        struct itimerval tv_stop{{0, 0}, {0, 0}};
        setitimer(ITIMER_VIRTUAL, &tv_stop, nullptr);
        x.r.clear();
    }
    g_out.clear();
    g_out += "{\"op\":\"";
    g_out += alg.name;
    g_out += "\",\"inst\":\"";
    g_out += run.cat;
    g_out += "\"";
    put_arr("a", x.a);
    put_arr("b", x.b);
    char tmp[64];
    std::snprintf(tmp, sizeof tmp, ",\"m\":%d,\"v\":%d,\"c\":%d", m, v, c);
    g_out += tmp;
    bool ok;
    if (sh.numeric) {
        put_arr("oa", codes(x.IA));
        put_arr("ob", codes(x.IB));
        put_arr("od", x.used_d ? codes(x.ID) : std::vector<int>{});
        put_arr("oc", {});
        ok = x.IA.intact() && x.IB.intact() && x.ID.intact();
    } else {
        auto oa = codes(x.A);
        if (x.rev) { std::reverse(oa.begin(), oa.end()); }
        put_arr("oa", oa);
        auto ob = codes(x.B);
        if (x.rev) { std::reverse(ob.begin(), ob.end()); }
        put_arr("ob", ob);
        put_arr("od", x.used_d ? codes(x.D) : std::vector<int>{});
        put_arr("oc", x.used_d2 ? codes(x.D2) : std::vector<int>{});
        ok = x.A.intact() && x.B.intact() && x.D.intact() && x.D2.intact();
    }
    put_arr("r", x.r);
    std::vector<int> p;
    for (int i = 0; i < 256; ++i) {
        if (g_touch[i]) { p.push_back(i); }
    }
    put_arr("p", p);
    g_out += ok ? ",\"cz\":1" : ",\"cz\":0";
    if (g_selfmove) { g_out += ",\"sm\":1"; }
    g_out += g_hung == 0 ? "}\n" : g_hung == 1 ? ",\"hang\":1}\n" : ",\"hang\":2}\n";
    std::fwrite(g_out.data(), 1, g_out.size(), stdout);
    std::fflush(stdout);
}

static long run_group(Alg const& alg, Run const& run, Domain const& dom)
{
    long count      = 0;
    Shape const& sh = alg.sh;
    int amax        = sh.a1 == A_PAIR ? dom.MaxPair : sh.a1 == A_MID ? dom.MaxA2 : dom.MaxLen;
    for (int c : sh.cs) {
        for (auto const& ka : dom.seqs) {
            int n = (int)ka.size();
            if (n > amax) { continue; }
            if (sh.a1 == A_SORTED && !sorted_k(ka, c, 0, ka.size())) { continue; }
            if (sh.a1 == A_PART && !partitioned_k(ka, c)) { continue; }
            if (sh.a1 == A_LEN2 && n != 2) { continue; }
            if (sh.a1 == A_RAMP) {
                bool ramp = true;
                for (int i = 0; i < n; ++i) { ramp = ramp && ka[(size_t)i] == (i + 1) % 3; }
                if (!ramp) { continue; }
            }
            if (sh.a1 == A_CLAMP && (n != 3 || rel(c == 0 ? 1 : c, ka[2], ka[1]))) { continue; }
            for (auto const& kb : dom.seqs) {
                int nb = (int)kb.size();
                if (sh.a2 == B_NONE && nb != 0) { continue; }
                if (sh.a2 == B_SAME && nb != n) { continue; }
                if ((sh.a2 == B_NEEDLE || sh.a2 == B_SNEEDLE) && nb > dom.MaxLen2) { continue; }
                if (sh.a2 == B_SNEEDLE && !sorted_k(kb, c, 0, kb.size())) { continue; }
                int mlo = 0, mhi = 0;
                switch (sh.mk) {
                case M_0: break;
                case M_M1N: mlo = -1, mhi = n; break;
                case M_0N: mhi = n; break;
                case M_0N1: mhi = n + 1; break;
                case M_M1N1: mlo = -1, mhi = n + 1; break;
                case M_KEYS: mhi = 2; break;
                case M_INPLACE: mhi = n; break;
                case M_PAIRPOS: mhi = n * 8 + n; break;       // m = i * 8 + j
                case M_POSOFF:                                // m = i * 16 + k + 8
                case M_POSOFF0: mhi = n * 16 + n + 8; break;
                }
                for (int m = mlo; m <= mhi; ++m) {
                    if (sh.mk == M_PAIRPOS && m % 8 > n) { continue; }
                    if (sh.mk == M_POSOFF && (m % 16 - 8 < -n || m % 16 - 8 > n)) { continue; }
                    if (sh.mk == M_POSOFF0 && (m % 16 - 8 < 0 || m % 16 - 8 > n)) { continue; }
                    if (sh.mk == M_INPLACE && !(sorted_k(ka, c, 0, (size_t)m) && sorted_k(ka, c, (size_t)m, ka.size()))) { continue; }
                    int vlo = sh.vk == V_ONE ? 1 : 0;
                    int vhi = sh.vk == V_ONE ? 1 : sh.vk == V_0 ? 0 : (sh.vk == V_REDUCE && c == 0) ? 0 : 2;
                    for (int v = vlo; v <= vhi; ++v) {
                        run_case(alg, run, ka, kb, m, v, c);
                        ++count;
                        if (g_hung) { return count; }
                    }
                }
            }
        }
    }
    return count;
}

int main(int argc, char** argv)
{
    if (argc >= 2 && std::strcmp(argv[1], "list") == 0) {
        for (auto const& a : table()) {
            std::printf("%s", a.name);
            for (auto const& r : a.runs) { std::printf(" %s", r.cat); }
            for (auto const* u : a.unsupported) { std::printf(" !%s", u); }
            std::printf("\n");
        }
        return 0;
    }
    if (argc == 9 && std::strcmp(argv[1], "one") == 0) {
        // one <op> <cat> <c> <m> <v> <a keys, e.g. 0120 or -> <b keys>: re-execute a single recorded case
        auto keys = [](char const* s) {
            std::vector<int> k;
            for (; *s; ++s) {
                if (*s >= '0' && *s <= '9') { k.push_back(*s - '0'); }
            }
            return k;
        };
        install_handlers();
        std::printf("{\"op\":\"#replay\",\"inst\":\"-\"}\n");
        bool found = false;
        for (auto const& a : table()) {
            for (auto const& r : a.runs) {
                if (std::strcmp(a.name, argv[2]) == 0 && std::strcmp(r.cat, argv[3]) == 0) {
                    run_case(a, r, keys(argv[7]), keys(argv[8]), std::atoi(argv[5]), std::atoi(argv[6]), std::atoi(argv[4]));
                    found = true;
                }
            }
        }
        std::printf("{\"op\":\"#end\",\"inst\":\"-\"}\n");
        if (!found) { std::fprintf(stderr, "UNSUPPORTED %s %s\n", argv[2], argv[3]); }
        return found ? 0 : 3;
    }
    if (argc < 4 || std::strcmp(argv[1], "run") != 0) {
        std::fprintf(stderr, "usage: algo_driver list | run <domain> <op|op/cat,...|all>\n");
        return 2;
    }
    install_handlers();
    Domain dom      = read_domain(argv[2]);
    std::string sel = std::string(",") + argv[3] + ",";
    bool all        = std::strcmp(argv[3], "all") == 0;
    long total      = 0;
    for (auto const& a : table()) {
        bool whole = all || sel.find(std::string(",") + a.name + ",") != std::string::npos;
        if (whole) {
            for (auto const* u : a.unsupported) { std::fprintf(stderr, "UNSUPPORTED %s %s\n", a.name, u); }
        }
        for (auto const& r : a.runs) {
            if (!whole && sel.find(std::string(",") + a.name + "/" + r.cat + ",") == std::string::npos) { continue; }
            long k = run_group(a, r, dom);
            std::fprintf(stderr, "GROUP %s %s %ld\n", a.name, r.cat, k);
            total += k;
        }
    }
    std::printf("{\"op\":\"#end\",\"inst\":\"-\"}\n");
    std::fflush(stdout);
    std::fprintf(stderr, "TOTAL %ld\n", total);
    return 0;
}
#endif
