---------------------------- MODULE LifeOps ----------------------------
(* Element-lifetime protocol (property C03), constant-free.                                          *)
(* A *cell* is one place an element object can live: slot i of owner region r is r*1000+i,            *)
(* anything else (temporaries, the harness' argument objects) is 9000+k.  An API call of an owning     *)
(* type is observed as the sequence of special-member events of its elements                           *)
(*     [k |-> kind, c |-> cell, s |-> source cell or 0, v |-> value carried]                           *)
(* The protocol:  a constructor runs only on a dead cell, every other member and the destructor only   *)
(* on an alive cell, sources of copies/moves are alive; at the end of the call exactly the cells the   *)
(* abstract state names are alive and hold the abstract values; temporaries are dead again.            *)
EXTENDS Naturals, Integers, Sequences, FiniteSets

DEAD == -999999     \* value marker of a dead cell (never a legal element value)
MOVED == -1         \* value left in a moved-from element by the harness' element type

\* state: function cell -> value (DEAD when no object lives there)
CellsOf(evs, init) == DOMAIN init \cup {evs[i].c : i \in 1..Len(evs)}
                        \cup {evs[i].s : i \in {j \in 1..Len(evs) : evs[j].s # 0}}

Get(f, c) == IF c \in DOMAIN f THEN f[c] ELSE DEAD
Put(f, c, v) == [d \in DOMAIN f \cup {c} |-> IF d = c THEN v ELSE f[d]]

\* one protocol step; returns [f |-> new state, ok |-> BOOLEAN]
LStep(f, e) ==
    LET c == e.c s == e.s IN
    CASE e.k = "ctor" -> [f |-> Put(f, c, e.v), ok |-> Get(f, c) = DEAD]
      [] e.k = "cctor" -> [f |-> Put(f, c, Get(f, s)), ok |-> Get(f, c) = DEAD /\ Get(f, s) # DEAD]
      [] e.k = "mctor" -> [f |-> Put(Put(f, c, Get(f, s)), s, MOVED),
                           ok |-> Get(f, c) = DEAD /\ Get(f, s) # DEAD /\ c # s]
      [] e.k = "cassign" -> [f |-> Put(f, c, Get(f, s)), ok |-> Get(f, c) # DEAD /\ Get(f, s) # DEAD]
      [] e.k = "massign" -> [f |-> IF c = s THEN f ELSE Put(Put(f, c, Get(f, s)), s, MOVED),
                             ok |-> Get(f, c) # DEAD /\ Get(f, s) # DEAD]
      [] e.k = "dtor" -> [f |-> Put(f, c, DEAD), ok |-> Get(f, c) # DEAD]
      [] OTHER -> [f |-> f, ok |-> FALSE]

RECURSIVE LRun(_, _, _)
\* returns [f, bad] : bad = index of the first event that broke the protocol, 0 if none
LRun(f, evs, i) ==
    IF i > Len(evs) THEN [f |-> f, bad |-> 0]
    ELSE LET r == LStep(f, evs[i]) IN
         IF r.ok THEN LRun(r.f, evs, i + 1) ELSE [f |-> r.f, bad |-> i]

\* cells alive before the call: the elements of each owner (region r holds seq), plus harness cells
InitCells(owners, ext) ==
    \* owners: sequence of [r |-> region, els |-> Seq]; ext: sequence of [c |-> cell, v |-> value]
    LET OC == UNION {{owners[k].r * 1000 + i : i \in 1..Len(owners[k].els)} : k \in 1..Len(owners)} IN
    [c \in OC \cup {ext[j].c : j \in 1..Len(ext)} |->
        IF c >= 9000 THEN (LET j == CHOOSE j \in 1..Len(ext) : ext[j].c = c IN ext[j].v)
        ELSE LET r == c \div 1000 i == c % 1000
                 k == CHOOSE k \in 1..Len(owners) : owners[k].r = r IN owners[k].els[i]]

\* end-of-call obligation
FinalOK(f, owners, extAlive) ==
    /\ \A k \in 1..Len(owners) :
          /\ \A i \in 1..Len(owners[k].els) : Get(f, owners[k].r * 1000 + i) = owners[k].els[i]
    /\ \A c \in DOMAIN f :
          /\ (c < 9000 /\ f[c] # DEAD) =>
                 \E k \in 1..Len(owners) : owners[k].r = c \div 1000 /\ c % 1000 <= Len(owners[k].els)
          /\ (c >= 9000) => ((f[c] # DEAD) <=> (c \in extAlive))
=========================================================================
