"""IntMath pipeline (spec/IntMath.tla, IntMathOps.tla, BitsIM.tla, WideIM.tla, IntMathTrace.tla,
harness/intmath_driver.cpp).  Serves C14.

  MC/GEN : TLC proves the laws of the model on every 8-bit input and exports the input domain
  replay : the exported domain is executed on uint8_t/int8_t; the driver adds its own 16-bit sweeps and
           32/64-bit boundary + seeded random values
  TV     : every recorded event is judged by IntMathTrace.tla
  calibration: the same calls on libstdc++/glibc/__int128 reference must give zero deviations
"""
import json
import os
from concurrent.futures import ThreadPoolExecutor

import vlib

WIDE_TYPES = ("u32", "i32", "u64", "i64", "ull", "ll", "mixed")
# the limb arithmetic of WideIM recurses once per bit of a 64-bit value: TLC's interpreter needs a deeper stack
JENV = {"JAVA_TOOL_OPTIONS": "-Xss64m"}
CXXFLAGS = ["-pthread", "-fno-optimize-sibling-calls"]
# sanitizer builds (VERIF_SANITIZE, property C02): a report must end in abort() so that the driver can turn it into a
# crash event; leak checking is not this module's business (nothing here allocates on behalf of etl)
SAN_ENV = {"ASAN_OPTIONS": "abort_on_error=1:detect_leaks=0:handle_abort=0", "UBSAN_OPTIONS": "abort_on_error=1:print_stacktrace=0"}


def _run_env():
    return dict(SAN_ENV) if os.environ.get("VERIF_SANITIZE") else {}


def _split(paths, n, outprefix):
    """Concatenate ndjson files and split them into n files of (almost) equal line count."""
    lines = []
    for p in paths:
        with open(p, "rb") as f:
            part = f.readlines()
        if not part:
            raise vlib.ModelFailure("driver produced no events: " + p)
        lines += part
        os.remove(p)                 # the pieces written below replace it
    n = max(1, min(n, (len(lines) + 4999) // 5000))
    per = (len(lines) + n - 1) // n
    outs = []
    for i in range(n):
        chunk = lines[i * per:(i + 1) * per]
        if not chunk:
            break
        op = "%s_%d.ndjson" % (outprefix, i)
        with open(op, "wb") as g:
            g.writelines(chunk)
        outs.append(op)
    return outs


def _tv(chunks, tag, par):
    with ThreadPoolExecutor(max_workers=par) as ex:
        futs = [ex.submit(vlib.tlc_tv, "IntMathTrace.tla", "IntMathTrace.cfg", tp, "%s_%d" % (tag, i), "3g", 3600, JENV)
                for i, tp in enumerate(chunks)]
        res = [f.result() for f in futs]
    out = {"events": sum(r["events"] for r in res), "deviations": [d for r in res for d in r["deviations"]],
           "wall": max(r["wall"] for r in res)}
    if not out["deviations"]:
        for tp in chunks:            # several GB in the thorough tier; every run regenerates them
            os.remove(tp)
    return out


def model(tier):
    reuse = os.path.join(vlib.VERIF, "build", "scripts", "intmath_gen_%s.ndjson" % tier)
    if os.environ.get("VERIF_REUSE_GEN", "0") == "1" and os.path.exists(reuse):
        # mutation self-tests only: the model run does not depend on the tree under test
        # such a run reports no model-checking counts: keep it away from the committed evidence file
        if "VERIF_EVID" not in os.environ:
            vlib.EVID = os.path.join(vlib.BUILD, "mutation_evidence")
        gen = [json.loads(l) for l in open(reuse)]
        return {"states": 0, "transitions": 0, "gen": gen, "out": reuse, "wall": 0.0, "reused": True}
    consts = {"quick": {"ZStride": "32"}, "thorough": {"ZStride": "1"}}[tier]
    return vlib.tlc_mc("IntMath.tla", "IntMath.cfg", "intmath_mc_" + tier, workers=6 if tier == "quick" else 8, heap="4g",
                       constants=consts, timeout=3000, env=JENV)


CE_FAILED = {}


def build_drivers(impls=("etl", "std")):
    """The etl build evaluates the bit functions on tables of in-domain arguments at compile time.  If that does not
    compile (a function is not a constant expression there: undefined behaviour the compiler diagnoses), the driver is
    rebuilt without the tables and the failure itself becomes an event (see pipeline)."""
    jobs = {"etl": dict(src="intmath_driver.cpp", out="intmath_etl", std="c++23", flags=CXXFLAGS),
            "std": dict(src="intmath_driver.cpp", out="intmath_std", std="c++23", flags=CXXFLAGS + ["-DVH_STD"], include_repo=False)}
    CE_FAILED.clear()

    def one(i):
        try:
            return vlib.build(**jobs[i])
        except vlib.ModelFailure as e:
            msg = str(e)
            if i != "etl" or not ("constexpr" in msg or "constant expression" in msg):
                raise
            line = next((l for l in msg.splitlines() if "error:" in l), msg[-300:])
            CE_FAILED["report"] = line.strip()[:300]
            j = dict(jobs[i])
            j["flags"] = list(j["flags"]) + ["-DVH_NO_CE"]
            return vlib.build(**j)
    with ThreadPoolExecutor(max_workers=2) as ex:
        p = list(ex.map(one, impls))
    return dict(zip(impls, p))


def run_sweeps(tier, bins, impl):
    """16-bit sweeps and the wide types; returns (16-bit trace paths, wide trace paths, stderr texts)."""
    d = vlib.workdir("traces")
    t16, tw = [], []
    nparts = 2 if tier == "quick" else 8
    for part in range(nparts):
        t16.append(([bins[impl], "sweep16", tier, str(part), str(nparts)],
                    os.path.join(d, "intmath_%s_%s_s16_%d.ndjson" % (impl, tier, part)), {"env": _run_env()}))
    for t in WIDE_TYPES:
        tw.append(([bins[impl], "wide", tier, t], os.path.join(d, "intmath_%s_%s_wide_%s.ndjson" % (impl, tier, t)), {"env": _run_env()}))
    res = vlib.run_parallel(t16 + tw, par=6)
    return [t[1] for t in t16], [t[1] for t in tw], [e for _, e in res]


def _traps(errs):
    n = 0
    for e in errs:
        for line in e.splitlines():
            if line.startswith("SUMMARY") and "traps=" in line:
                n += int(line.rsplit("traps=", 1)[1])
    return n


def pipeline(tier, rep, calibrate=True):
    par = 6 if tier == "quick" else 8
    d = vlib.workdir("traces")
    if os.environ.get("VERIF_CALIBRATE", "1") == "0":
        calibrate = False        # mutation self-tests only: the std build does not depend on the tree under test
        rep.notes.append("calibration skipped (VERIF_CALIBRATE=0)")
    impls = ("etl", "std") if calibrate else ("etl",)
    with ThreadPoolExecutor(max_workers=1) as ex:
        fmc = ex.submit(model, tier)
        bins = build_drivers(impls)
        # the sweeps do not depend on the model run: execute and validate them while TLC explores
        tv_sw = {}
        traps = {}
        nfiles = 0
        for impl in impls:
            t16, tw, errs = run_sweeps(tier, bins, impl)
            traps[impl] = _traps(errs)
            nfiles = len(t16) + len(tw)
            if impl == "etl" and CE_FAILED:
                # compile-time evaluation of an in-domain call was rejected by the compiler: judged like any other crash
                with open(t16[0], "a") as f:
                    f.write(json.dumps({"op": "crash", "w": 8, "s": 0, "x": 0, "of": "constant_evaluation",
                                        "report": CE_FAILED["report"]}) + "\n")
                rep.notes.append("the compile-time tables of the driver did not compile: " + CE_FAILED["report"])
            # wide events cost ~10x a 16-bit one: balance them over their own chunks
            chunks = _split(t16, 2 if tier == "quick" else 16, os.path.join(d, "intmath_%s_%s_c16" % (impl, tier))) \
                + _split(tw, 4 if tier == "quick" else 16, os.path.join(d, "intmath_%s_%s_cw" % (impl, tier)))
            tv_sw[impl] = _tv(chunks, "intmath_tv_sw_%s_%s" % (impl, tier), par)
        mc = fmc.result()
    rep.add_mc("IntMath", mc)
    if mc.get("reused"):
        rep.notes.append("model run skipped, exported domain reused (VERIF_REUSE_GEN=1)")
    rep.cov["exhaustive"] = True
    gen = mc["gen"]
    want = 256 + 256 * 256 + 256 * 261
    if len(gen) != want:
        raise vlib.ModelFailure("IntMath.tla exported %d inputs, expected %d" % (len(gen), want))
    genfile = os.path.join(vlib.workdir("scripts"), "intmath_gen_%s.ndjson" % tier)
    with open(genfile, "w") as f:
        for g in gen:
            f.write(json.dumps(g) + "\n")
    tv_rp = {}
    for impl in impls:
        tp = os.path.join(d, "intmath_%s_%s_replay8.ndjson" % (impl, tier))
        _, err = vlib.run([bins[impl], "replay8", genfile], tp, env=_run_env())
        traps[impl] += _traps([err])
        chunks = _split([tp], 8 if tier == "quick" else 12, os.path.join(d, "intmath_%s_%s_c8" % (impl, tier)))
        tv_rp[impl] = _tv(chunks, "intmath_tv_rp_%s_%s" % (impl, tier), 12)
    rep.add_tv("IntMath", tv_rp["etl"], len(gen), "8-bit domain exported by TLC")
    rep.add_tv("IntMath", tv_sw["etl"], nfiles, "16-bit sweeps, 32/64-bit boundary and seeded random values")
    m = rep.cov["modules"]["IntMath"]
    m["not_drivable"] = ["sub_sat", "mul_sat (neither is provided by etl)"]
    m["calls_ended_by_a_signal"] = traps["etl"]
    rep.sample({"module": "IntMath", "input": gen[len(gen) // 2]})
    if calibrate:
        for ctv in (tv_sw["std"], tv_rp["std"]):
            if ctv["deviations"]:
                dv = ctv["deviations"][0]
                raise vlib.ModelFailure("calibration: the reference implementation deviates from the IntMath spec "
                                        "(spec/projection error): %s %s" % (dv["kind"], json.dumps(dv.get("ev"))[:500]))
        m["calibration_events_std"] = tv_sw["std"]["events"] + tv_rp["std"]["events"]
    return tv_rp["etl"], tv_sw["etl"]


def replay(rec):
    """tools/check.py --replay: execute the call(s) behind one recorded event again on the current tree and
    judge the fresh event with IntMathTrace.tla."""
    d = vlib.workdir("replay")
    b = vlib.build("intmath_driver.cpp", "intmath_replay", std="c++23", flags=CXXFLAGS)
    ep = os.path.join(d, "intmath_event.ndjson")
    with open(ep, "w") as f:
        f.write(json.dumps(rec["event"]) + "\n")
    tp = os.path.join(d, "intmath_trace.ndjson")
    vlib.run([b, "rerun", ep], tp)
    tv = vlib.tlc_tv("IntMathTrace.tla", "IntMathTrace.cfg", tp, "intmath_replay", "3g", 3600, JENV)
    return tv["deviations"]
