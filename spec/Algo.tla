------------------------------ MODULE Algo ------------------------------
(* Input-domain enumerator and model theorems for the algorithm family.                            *)
(*   root -> <<"seq", s>>     one node per key sequence: exported as GEN line (the shared input     *)
(*                            domain that harness/algo_driver.cpp replays through every algorithm)  *)
(*   root -> <<"op", op>>     one node per algorithm: exported with the size of its domain          *)
(*   <<"op", op>> -> <<"chk", op, c>>   one node per predicate code: the theorems below are         *)
(*                            evaluated for EVERY input of DomC(op, c)                               *)
(* MC role (what TLC proves about the specification itself):                                        *)
(*   NonVacuous   Post(op, x, Ref(op, x)) - the declarative postcondition transcribed from the      *)
(*                standard is satisfied by the operational reference on the whole domain            *)
(*   Determined   for the algorithms that only return a value, no other return value satisfies      *)
(*                Post (the relation is an equation)                                                 *)
(*   SizesAgree   the arithmetic DomSize used by the trace validator = |Dom| by enumeration          *)
EXTENDS AlgoDom, TLC, Json

\* the exported sequences may be longer than the bound the theorems are checked on (quick tier)
CONSTANT ExportLen

VARIABLE node
Root == <<"root">>

AltRets(x) == (-1)..(Len(x.a) + 1)
ChkInput(op, x) ==
    LET o == Ref(op, x) IN
    /\ InDom(op, x)
    /\ Post(op, x, o)
    /\ (op \in RetOnlyOps /\ Len(o.r) = 1) =>
          \A q \in AltRets(x) : Post(op, x, [o EXCEPT !.r = <<q>>]) => q = o.r[1]
    /\ (op \in RetOnlyOps /\ Len(o.r) = 2) =>
          \A q1 \in AltRets(x) : \A q2 \in AltRets(x) : Post(op, x, [o EXCEPT !.r = <<q1, q2>>]) => <<q1, q2>> = o.r

ChkNode(op, c) ==
    LET D == DomC(op, c) IN
    /\ Cardinality(D) = DomSizeC(op, c)
    /\ \A x \in D : ChkInput(op, x) \/ Print(<<"theorem fails", op, x>>, FALSE)

KeysOf(s) == [i \in 1..Len(s) |-> Key(s[i])]

Inv ==
    CASE node[1] = "seq" -> PrintT(<<"GEN", ToJson([kind |-> "seq", s |-> KeysOf(node[2])])>>)
      [] node[1] = "op" -> PrintT(<<"GEN", ToJson([kind |-> "op", op |-> node[2], size |-> DomSize(node[2])])>>)
      [] node[1] = "chk" -> ChkNode(node[2], node[3])
      [] OTHER -> TRUE

Init == node = Root
Next ==
    \/ /\ node = Root
       /\ node' \in {<<"seq", s>> : s \in UNION {SeqsA(n) : n \in 0..ExportLen}} \cup {<<"op", op>> : op \in AllOps}
    \/ /\ node[1] = "op"
       /\ node' \in {<<"chk", node[2], c>> : c \in Cs(node[2])}
Spec == Init /\ [][Next]_node
=========================================================================
