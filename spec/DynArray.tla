---------------------------- MODULE DynArray ----------------------------
(* Two dynamic_array objects.  The model fixes the one thing DynArrayOps leaves open (a moved-from object is      *)
(* empty) and TLC proves that this model satisfies the resource law in every reachable state - i.e. the law is     *)
(* satisfiable by the obvious implementation - and exports every transition.                                       *)
EXTENDS DynArrayOps, TLC, Json

CONSTANTS Ns, Vals
VARIABLES st, mv, last
\* mv: ghost - the objects that are in a moved-from state.  A moved-from object and a default-constructed one look
\* the same from outside but need not be the same inside (a dangling pointer, a stale size): keeping them apart in the
\* model makes TLC export, and the harness execute, every operation on both.
vars == <<st, mv, last>>
View == <<st, mv>>

X0 == [n |-> 0, v |-> 0]
Call(op, o, x) == [op |-> op, o |-> o, x |-> x]
Calls ==
    {Call(op, o, X0) : op \in {"ctor_default", "move_ctor", "move_assign", "dtor"}, o \in {"a", "b"}}
    \cup {Call("ctor_n", o, [X0 EXCEPT !.n = n]) : o \in {"a", "b"}, n \in Ns}
    \cup {Call("ctor_fill", o, [n |-> n, v |-> v]) : o \in {"a", "b"}, n \in Ns, v \in Vals}

St0 == [a |-> DeadObj, b |-> DeadObj]
Init == st = St0 /\ mv = {} /\ last = [op |-> "init", o |-> "a", x |-> X0, pre |-> St0, post |-> St0, premv |-> {}, postmv |-> {}]

Step(c) ==
    /\ Pre(c.op, c.o, c.x, st)
    /\ LET t == [st EXCEPT ![c.o] = Tgt(c.op, c.o, c.x, st),
                           ![Other(c.o)] = IF c.op \in {"move_ctor", "move_assign"} THEN Obj(<<>>) ELSE st[Other(c.o)]]
           m == IF c.op \in {"move_ctor", "move_assign"} THEN (mv \ {c.o}) \cup {Other(c.o)} ELSE mv \ {c.o} IN
       /\ st' = t
       /\ mv' = m
       /\ last' = [op |-> c.op, o |-> c.o, x |-> c.x, pre |-> st, post |-> t, premv |-> mv, postmv |-> m]
Next == \E c \in Calls : Step(c)
Spec == Init /\ [][Next]_vars
Emit == PrintT(<<"GEN", ToJson(last')>>)

\* the model's transitions are admitted by the relation the traces are judged with
ModelConforms == [][PostOK(last'.op, last'.o, last'.x, st, st')]_vars
\* elements are neither duplicated nor lost by a move: what the two objects hold together only changes through
\* constructors from values and destructors / overwritten targets
MoveConserves ==
    [][last'.op = "move_ctor" => LiveElems(st') = LiveElems(st)]_vars
MoveAssignReleasesTarget ==
    [][last'.op = "move_assign" => LiveElems(st') = LiveElems(st) - Len(st[last'.o].els)]_vars
AllGoneNothingLeft == (~st.a.live /\ ~st.b.live) => (LiveElems(st) = 0 /\ Blocks(st) = <<>>)
BlocksSorted == LET b == Blocks(st) IN Len(b) <= 2 /\ (Len(b) = 2 => b[1] <= b[2])
=========================================================================
