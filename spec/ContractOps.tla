--------------------------- MODULE ContractOps ---------------------------
(* Property C05, table part: the *documented* precondition of every checked operation outside the   *)
(* vector family (those live in VectorOps!Pre), written semantically.  A call is                      *)
(*   [site, cap, n, a, b]  : operation id, capacity / width of the object, abstract state summary n     *)
(*   (content length for strings/views/spans, 1 = engaged / has value for optional/expected, active     *)
(*   alternative for variant, unused for the rest), and up to two integer arguments.                    *)
(* Deliberately NOT in the table, because etl defines the behaviour instead of documenting a            *)
(* precondition (asserted by its own tests / doc comments): optional/expected operator-> on an empty       *)
(* object (returns nullptr), inplace_string::substr(pos > size()) (returns an empty string),               *)
(* inplace_string::resize / append / insert beyond capacity (clamp).                                       *)
(* MAXTOK stands for the largest value of the argument type (SIZE_MAX, 255 for 8-bit positions).        *)
EXTENDS Naturals, Integers, Sequences, FiniteSets, TLC

MAXTOK == 1000000
Min2c(x, y) == IF x < y THEN x ELSE y

\* arity of each site (how many of a, b are meaningful)
Arity ==
    [s \in {"str.front", "str.back", "str.pop_back", "str.push_back", "sv.front", "sv.back", "span.front", "span.back",
            "opt.deref", "exp.deref", "exp.error",
            "opt.deref_c", "opt.deref_rv", "opt.deref_crv", "exp.deref_c", "exp.deref_rv", "exp.deref_crv",
            "exp.error_c", "exp.error_rv", "exp.error_crv"} |-> 0]
    @@ [s \in {"str.index", "str.cindex", "str.ctor_fill", "str.ctor_ptr_len", "str.assign_fill", "str.assign_ptr_len",
               "str.assign_cstr", "str.erase_index", "str.insert_index",
               "sv.index", "sv.remove_prefix", "sv.remove_suffix", "sv.substr",
               "span.index", "span.first", "span.last", "arr.index", "arr.cindex",
               "var.unchecked_get", "var.subscript",
               "bs.test", "bs.set", "bs.reset", "bs.flip", "bs.cindex", "bs.index",
               "bbs.cindex", "bbs.index", "bbs.unchecked_test", "bbs.unchecked_set", "bbs.unchecked_reset", "bbs.unchecked_flip",
               "num.div_sat", "bit.set_bit", "bit.set_bit_val", "bit.reset_bit", "bit.flip_bit", "bit.test_bit",
               "chrono.day", "chrono.month", "md.left_stride", "md.right_stride"} |-> 1]
    @@ [s \in {"str.erase_range", "str.replace_pos", "sv.copy", "span.subspan"} |-> 2]

Sites == DOMAIN Arity

Family(site) ==
    CASE site \in {"str.front", "str.back", "str.pop_back", "str.push_back", "str.index", "str.cindex", "str.ctor_fill",
                   "str.ctor_ptr_len", "str.assign_fill", "str.assign_ptr_len", "str.assign_cstr", "str.erase_index",
                   "str.insert_index", "str.erase_range", "str.replace_pos"} -> "str"
      [] site \in {"sv.front", "sv.back", "sv.index", "sv.remove_prefix", "sv.remove_suffix", "sv.substr", "sv.copy"} -> "sv"
      [] site \in {"span.front", "span.back", "span.index", "span.first", "span.last", "span.subspan"} -> "span"
      [] site \in {"arr.index", "arr.cindex"} -> "arr"
      [] site \in {"opt.deref", "opt.deref_c", "opt.deref_rv", "opt.deref_crv"} -> "opt"
      [] site \in {"exp.deref", "exp.error", "exp.deref_c", "exp.deref_rv", "exp.deref_crv",
                   "exp.error_c", "exp.error_rv", "exp.error_crv"} -> "exp"
      [] site \in {"var.unchecked_get", "var.subscript"} -> "var"
      [] site \in {"bs.test", "bs.set", "bs.reset", "bs.flip", "bs.cindex", "bs.index"} -> "bs"
      [] site \in {"bbs.cindex", "bbs.index", "bbs.unchecked_test", "bbs.unchecked_set", "bbs.unchecked_reset", "bbs.unchecked_flip"} -> "bbs"
      [] site = "num.div_sat" -> "num"
      [] site \in {"bit.set_bit", "bit.set_bit_val", "bit.reset_bit", "bit.flip_bit", "bit.test_bit"} -> "bit"
      [] site \in {"chrono.day", "chrono.month"} -> "chrono"
      [] site \in {"md.left_stride", "md.right_stride"} -> "md"

\* ---- the documented preconditions ----------------------------------------------------------------
CPre(site, cap, n, a, b) ==
    CASE site \in {"str.front", "str.back", "str.pop_back", "sv.front", "sv.back", "span.front", "span.back"} -> n > 0
      [] site = "str.push_back" -> n < cap
      [] site \in {"str.index", "str.cindex"} -> a <= n                 \* std::string: s[size()] is the terminator
      [] site \in {"str.ctor_fill", "str.ctor_ptr_len", "str.assign_fill", "str.assign_ptr_len", "str.assign_cstr"} -> a <= cap
      [] site \in {"str.erase_index", "sv.substr", "sv.remove_prefix", "sv.remove_suffix",
                   "span.first", "span.last"} -> a <= n
      [] site = "str.insert_index" -> a <= n                              \* insert(index, 1, ch); over-capacity inserts clamp
      [] site = "str.erase_range" -> a <= b /\ b <= n                    \* erasing the whole string is valid
      [] site = "str.replace_pos" -> a <= n                              \* replace(pos, count, "x"): count is clamped
      [] site \in {"sv.index", "span.index"} -> a < n
      [] site = "sv.copy" -> b <= n                                      \* copy(dest, count = a, pos = b)
      [] site = "span.subspan" -> a <= n /\ (b = MAXTOK \/ b <= n - a)    \* subspan(offset = a, count = b | dynamic_extent)
      [] site \in {"arr.index", "arr.cindex", "bs.test", "bs.set", "bs.reset", "bs.flip", "bs.cindex", "bs.index",
                   "bbs.cindex", "bbs.index", "bbs.unchecked_test", "bbs.unchecked_set", "bbs.unchecked_reset",
                   "bbs.unchecked_flip", "bit.set_bit", "bit.set_bit_val", "bit.reset_bit", "bit.flip_bit", "bit.test_bit"} -> a < cap
      \* every ref-qualified overload (&, const&, &&, const&&) carries the same precondition
      [] site \in {"opt.deref", "opt.deref_c", "opt.deref_rv", "opt.deref_crv",
                   "exp.deref", "exp.deref_c", "exp.deref_rv", "exp.deref_crv"} -> n = 1
      [] site \in {"exp.error", "exp.error_c", "exp.error_rv", "exp.error_crv"} -> n = 0
      [] site \in {"var.unchecked_get", "var.subscript"} -> a = n
      [] site = "num.div_sat" -> a # 0
      [] site \in {"chrono.day", "chrono.month"} -> a < 255
      [] site \in {"md.left_stride", "md.right_stride"} -> a < cap        \* cap = rank

\* sites whose check is only compiled in with TETL_ENABLE_CONTRACT_CHECKS_SAFE
SafeOnly == {"arr.index", "arr.cindex"}

\* ---- judging one recorded call -------------------------------------------------------------------
\* ev = [site, cap, n, a, b, mode ("checks" | "safe"), outcome ("returned" | "handler" | "trap"), hline, pre, snap]
CJudge(ev) ==
    IF CPre(ev.site, ev.cap, ev.n, ev.a, ev.b)
    THEN (IF ev.outcome = "returned" THEN "ok" ELSE IF ev.outcome = "handler" THEN "contract-spurious" ELSE "contract-trap-valid")
    ELSE IF ev.site \in SafeOnly /\ ev.mode # "safe" THEN "ok"      \* not promised in this build mode
    ELSE IF ev.outcome # "handler" THEN "contract-missed"
    ELSE IF ev.hline <= 0 THEN "contract-nolocation"
    ELSE IF ev.snap # ev.pre THEN "contract-modified"
    ELSE "ok"
==========================================================================
