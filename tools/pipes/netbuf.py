"""NetBuf pipeline (spec/NetBuf.tla, NetBufOps.tla, NetBufTrace.tla, harness/netbuf_driver.cpp).  Serves X13.

  MC/GEN : TLC explores the view state machine over caller ranges of 0..6 bytes (advance 0..8, max size 0..8,
           container factories for element sizes 1/2/4), proves its invariants/laws and exports every transition
  replay : one script per edge (shortest call path to the pre-state + the edge) on mutable_buffer and const_buffer;
           the driver adds a seeded sweep (ranges up to 64 bytes, advances up to SIZE_MAX, chains)
  TV     : NetBufTrace.tla judges every recorded event
  calibration: the same scripts on libstdc++'s <experimental/buffer> (Networking TS) must give zero deviations
"""
import json
import os

import vlib

KINDS = ("mut", "const")
TAG = "netbuf"


def _state_key(t, which):
    return json.dumps([t["L"], t[which]], sort_keys=True)


def _call(t):
    return {"op": t["op"], "n": t["n"], "esz": t["esz"], "L": t["L"], "plan": t["pre"]}


def model(tier):
    consts = {"quick": {}, "thorough": {"MaxLen": "6", "MaxAdv": "12", "MaxMax": "12"}}[tier]
    return vlib.tlc_mc("NetBuf.tla", "NetBuf.cfg", "%s_mc_%s" % (TAG, tier), workers=2, heap="1g",
                       constants=consts or None, timeout=600)


def build_drivers(calibrate):
    jobs = [dict(src="netbuf_driver.cpp", out="netbuf_etl")]
    if calibrate:
        jobs.append(dict(src="netbuf_driver.cpp", out="netbuf_std", flags=["-DVH_STD"], include_repo=False))
    p = vlib.build_many(jobs)
    return {"etl": p[0], "std": p[1] if calibrate else None}


def _execute(bins, impl, sp, tier):
    d = vlib.workdir("traces")
    tasks = []
    for k in KINDS:
        tasks.append(([bins[impl], "replay", k, sp], os.path.join(d, "%s_%s_%s_replay_%s.ndjson" % (TAG, impl, tier, k))))
    tasks.append(([bins[impl], "sweep"], os.path.join(d, "%s_%s_%s_sweep.ndjson" % (TAG, impl, tier))))
    res = vlib.run_parallel(tasks, par=3)
    unsupported = sorted({l for _, err in res for l in err.splitlines() if l.startswith("UNSUPPORTED")})
    dropped = sum(int(l.rsplit("dropped=", 1)[1]) for _, err in res for l in err.splitlines() if l.startswith("SUMMARY"))
    merged = os.path.join(d, "%s_%s_%s_all.ndjson" % (TAG, impl, tier))
    with open(merged, "wb") as f:
        for _, tp in tasks:
            with open(tp, "rb") as g:
                f.write(g.read())
            os.remove(tp)
    return merged, unsupported, dropped


def pipeline(tier, rep, calibrate=True):
    if os.environ.get("VERIF_CALIBRATE", "1") == "0":
        calibrate = False            # mutation self-tests only: the std build does not depend on the tree under test
        rep.notes.append("calibration skipped (VERIF_CALIBRATE=0)")
    mc = model(tier)
    rep.add_mc("NetBuf", mc)
    rep.cov["exhaustive"] = True
    gen = [t for t in mc["gen"] if t["op"] != "init"]
    null = {"off": -1, "size": 0}
    scripts, st = vlib.plan_edges(gen, _state_key, lambda n: json.loads(n)[1] == null, _call)
    if st["unreachable"]:
        raise vlib.ModelFailure("planner: %d unreachable edges in NetBuf" % st["unreachable"])
    sp = os.path.join(vlib.workdir("scripts"), "%s_%s.ndjson" % (TAG, tier))
    vlib.write_scripts(scripts, sp)
    rep.cov["modules"]["NetBuf"].update({"scripts": len(scripts), "planner": st})
    rep.sample({"module": "NetBuf", "script": scripts[len(scripts) // 2]})

    bins = build_drivers(calibrate)
    trace, unsupported, dropped = _execute(bins, "etl", sp, tier)
    tv = vlib.tlc_tv("NetBufTrace.tla", "NetBufTrace.cfg", trace, "%s_tv_etl_%s" % (TAG, tier), heap="1g")
    rep.add_tv("NetBuf", tv, 2 * len(scripts), "every exported edge on mutable_buffer and const_buffer + seeded sweep")
    m = rep.cov["modules"]["NetBuf"]
    m["not_drivable"] = unsupported
    m["scripts_cut_at_a_missing_operation"] = dropped
    if calibrate:
        ctrace, cuns, cdropped = _execute(bins, "std", sp, tier)
        ctv = vlib.tlc_tv("NetBufTrace.tla", "NetBufTrace.cfg", ctrace, "%s_tv_std_%s" % (TAG, tier), heap="1g")
        if ctv["deviations"]:
            dv = ctv["deviations"][0]
            raise vlib.ModelFailure("calibration: libstdc++ <experimental/buffer> deviates from the NetBuf spec "
                                    "(spec/projection error): %s %s" % (dv["kind"], json.dumps(dv.get("ev"))[:500]))
        if cuns or cdropped:
            raise vlib.ModelFailure("calibration build cannot drive: %s" % cuns)
        m["calibration_events_std"] = ctv["events"]
    return tv


def replay(rec):
    """tools/check.py --replay: run the recorded call again on the current tree (pre-state rebuilt through make +
    one advance) and judge the fresh event."""
    ev = rec["event"]
    d = vlib.workdir("replay")
    b = vlib.build("netbuf_driver.cpp", "netbuf_replay")
    script = []
    if ev["op"] not in ("make_array", "make_vec"):
        if ev["pre"]["off"] >= 0:
            script.append({"op": "make", "n": 0, "esz": 1, "L": ev["L"], "quiet": 1})
            if ev["pre"]["off"] > 0:
                script.append({"op": "adv", "n": ev["pre"]["off"], "esz": 1, "L": ev["L"], "quiet": 1})
    script.append({"op": ev["op"], "n": ev["n"], "esz": ev["esz"], "L": ev["L"]})
    sp = os.path.join(d, "netbuf_script.ndjson")
    vlib.write_scripts([script], sp)
    tp = os.path.join(d, "netbuf_trace.ndjson")
    vlib.run([b, "replay", ev["kind"] if ev["op"] not in ("make_array", "make_vec") else "mut", sp], tp)
    tv = vlib.tlc_tv("NetBufTrace.tla", "NetBufTrace.cfg", tp, "netbuf_replay", heap="1g")
    return [dv for dv in tv["deviations"] if dv.get("ev", {}).get("kind") == ev["kind"]]
