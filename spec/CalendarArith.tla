-------------------------- MODULE CalendarArith --------------------------
(* Input-domain enumerator for the calendar arithmetic of [time.cal]: TLC enumerates every input     *)
(* (family, arguments) inside the constants, checks the laws below on each (MC role) and exports it    *)
(* as one GEN line (INVARIANT EmitInv over the initial states).  The driver executes every spelling    *)
(* of the operation (x + d, d + x, x - (-d), +=, -=, ++/-- pre and post) on every calendar type of the *)
(* family; CalendarTrace.tla judges the recorded events with the same CalendarOps operators.            *)
EXTENDS CalendarOps, TLC, Json, FiniteSets

CONSTANTS MonthDelta,   \* |dm| bound for month / year_month arithmetic
          WdDelta,      \* |dd| bound for weekday arithmetic
          YearGridIdx,  \* years of the year_month grid, as naturals: year = index - 32768
          YearDeltaAbs, \* magnitudes of year deltas
          Tier          \* "quick" | "thorough": extent of the driver's sweeps over sys_days / years

VARIABLE call
vars == <<call>>

YearGrid == {k - 32768 : k \in YearGridIdx}
YearDeltas == YearDeltaAbs \cup {-k : k \in YearDeltaAbs}

C(f, x) == [fam |-> f, x |-> x]

\* ---- sweeps the driver performs on its own (TLC fixes their bounds, incl. the day counts) ----------
Max2(a, b) == IF a > b THEN a ELSE b
Min2(a, b) == IF a < b THEN a ELSE b
Chunks == {<<-32768 + 4096 * j, -32768 + 4096 * j + 4095>> : j \in 0..15}       \* covers the int16 range
EraBounds == {<<400 * k - 1, 400 * k + 1>> : k \in -81..81}                    \* years around every era start
QuickRanges == {<<-800, 800>>, <<1900, 2100>>, <<-32768, -32700>>, <<32700, 32767>>}   \* year 0, the epoch (day 0), both ends
Ranges == IF Tier = "quick" THEN QuickRanges ELSE Chunks
\* day sweeps: [ylo-01-01, yhi-12-31] inside years -32767..32767; detail = 1 adds per-day year_month_weekday
DaySweeps == {<<Max2(r[1], YearMin), Min2(r[2], YearMax), 0>> : r \in Ranges} \cup {<<r[1], r[2], 1>> : r \in EraBounds}
OkSweeps == Ranges \cup (IF Tier = "quick" THEN EraBounds ELSE {})
YearSweeps == {<<Max2(r[1], YearMin + 1), Min2(r[2], YearMax - 1)>> : r \in Ranges}

\* the input domain, one disjunct per family (TLC enumerates the disjuncts directly)
Offered(c) ==
    \/ \E m \in 1..12, dm \in (-MonthDelta)..MonthDelta : c = C("month", <<m, dm>>)
    \/ \E a \in 1..12, b \in 1..12 : c = C("month_diff", <<a, b>>)
    \/ \E w \in 0..6, dd \in (-WdDelta)..WdDelta : c = C("wd", <<w, dd>>)
    \/ \E a \in 0..6, b \in 0..6 : c = C("wd_diff", <<a, b>>)
    \/ \E x \in 0..8 : c = C("wd_ctor", <<x>>)
    \/ \E w \in 0..6, i \in 0..7 : c = C("wdi", <<w, i>>)
    \/ \E y \in YearGrid, dy \in YearDeltas : c = C("year", <<y, dy>>)
    \/ \E a \in YearGrid, b \in YearGrid : c = C("year_diff", <<a, b>>)
    \/ \E y \in YearGrid, m \in 1..12, dm \in (-MonthDelta)..MonthDelta : c = C("ym_m", <<y, m, dm>>)
    \/ \E y \in YearGrid, m \in 1..12, dy \in YearDeltas : c = C("ym_y", <<y, m, dy>>)
    \/ \E y \in YearGrid : c = C("ymw_ok", <<y>>)
    \/ c = C("misc", <<0>>)
    \/ \E r \in DaySweeps : c = C("sweep", <<r[1], r[2], DaysFromCivil(r[1], 1, 1), DaysFromCivil(r[2], 12, 31), r[3]>>)
    \/ \E r \in OkSweeps : c = C("oksweep", <<r[1], r[2]>>)
    \/ \E r \in YearSweeps : c = C("yearsweep", <<r[1], r[2]>>)

\* inside the domain the standard defines (results stay in the year range)
InDomain(c) ==
    CASE c.fam = "year" -> YearOk(c.x[1]) /\ YearOk(c.x[1] + c.x[2]) /\ YearOk(c.x[1] - c.x[2])
      [] c.fam = "year_diff" -> YearOk(c.x[1]) /\ YearOk(c.x[2])
      [] c.fam = "ym_m" -> YearOk(c.x[1]) /\ YearOk(AddMonths(c.x[1], c.x[2], c.x[3])[1])
                                         /\ YearOk(AddMonths(c.x[1], c.x[2], -c.x[3])[1])
      [] c.fam = "ym_y" -> YearOk(c.x[1]) /\ YearOk(c.x[1] + c.x[3]) /\ YearOk(c.x[1] - c.x[3])
      [] OTHER -> TRUE

Init == Offered(call) /\ InDomain(call)
Next == UNCHANGED call
Spec == Init /\ [][Next]_vars

EmitInv == PrintT(<<"GEN", ToJson(call)>>)

\* ---- laws (MC role): the operational definitions satisfy the declarative clauses -----------------
Laws ==
    LET x == call.x IN
    CASE call.fam = "month" ->
            LET z == MonthAdd(x[1], x[2]) IN
            /\ z \in 1..12
            /\ MonthDiff(z, x[1]) = x[2] % 12                  \* (m + dm) - m == dm (mod 12)
            /\ MonthAdd(z, -x[2]) = x[1]                        \* inverse
            /\ \A k \in 1..12 : (k - x[1] - x[2]) % 12 = 0 => k = z   \* unique residue
      [] call.fam = "month_diff" ->
            LET dlt == MonthDiff(x[1], x[2]) IN dlt \in 0..11 /\ MonthAdd(x[2], dlt) = x[1]
      [] call.fam = "wd" ->
            LET z == WdAdd(x[1], x[2]) IN
            /\ z \in 0..6 /\ WdDiff(z, x[1]) = x[2] % 7 /\ WdAdd(z, -x[2]) = x[1]
      [] call.fam = "wd_diff" ->
            LET dlt == WdDiff(x[1], x[2]) IN dlt \in 0..6 /\ WdAdd(x[2], dlt) = x[1]
      [] call.fam = "ym_m" ->
            LET z == AddMonths(x[1], x[2], x[3]) IN
            /\ z[2] \in 1..12
            /\ YmDiff(z, <<x[1], x[2]>>) = x[3]                 \* the defining clause z - ym == dm
            /\ z[2] = MonthAdd(x[2], x[3])                      \* month part is month arithmetic
            /\ AddMonths(z[1], z[2], -x[3]) = <<x[1], x[2]>>
            \* uniqueness of z among ok() values around it
            /\ \A yy \in (z[1] - 1)..(z[1] + 1) : \A mm \in 1..12 :
                   YmDiff(<<yy, mm>>, <<x[1], x[2]>>) = x[3] => <<yy, mm>> = z
      [] OTHER -> TRUE
==========================================================================
