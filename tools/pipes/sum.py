"""Sum-type pipeline (spec/SumOps.tla, Sum.tla, SumTrace.tla, harness/sum_driver.cpp).
Serves C07 (behaviour); the life events of the same traces are C03 material (deviation kinds life-*)."""
import json
import os
import random
import subprocess
import vlib
from pipes.vector import concat

# instantiation -> (cfg kind, alternatives, SrcTypes, MixTypes, compile group)
INSTS = {
    "opt_int": ("optional", ["none", "int"], ["int", "bool", "shrt"], ["long", "shrt"], 1),
    "opt_trk": ("optional", ["none", "trk"], ["trk", "int"], ["int", "trk"], 1),
    "opt_bool": ("optional", ["none", "bool"], ["bool", "int"], [], 1),
    "optref": ("optref", ["none", "ref"], ["int"], [], 1),
    "optref_p": ("optref", ["none", "ref"], ["int"], [], 1),      # optional<P&>, P a class type: operator=(U&&) itself rebinds
    # MixTypes of a variant: foreign variant types (h3 = <int,bool,trk>, h4 = <int,bool,trk,mono>) for heterogeneous visits
    "var_it": ("variant", ["int", "trk"], ["int", "trk", "shrt", "bool"], ["h3", "h4"], 2),
    "var_ib": ("variant", ["int", "bool"], ["int", "bool", "shrt"], [], 2),
    "var_bt": ("variant", ["bool", "trk"], ["int", "bool", "trk", "shrt"], [], 2),
    "var_mit": ("variant", ["mono", "int", "trk"], ["int", "trk", "mono", "shrt"], ["h3", "h4"], 3),
    "var_ibtm": ("variant", ["int", "bool", "trk", "mono"], ["int", "bool", "trk", "mono", "shrt", "long"], ["h3"], 3),
    "exp_ii": ("expected", ["int", "int"], ["int", "shrt"], [], 4),
    "exp_ti": ("expected", ["trk", "int"], ["int", "trk"], [], 4),
    "exp_it": ("expected", ["int", "trk"], ["int", "trk"], [], 4),
    # repeated alternative types (index, not type, decides): only index-based construction where a type is ambiguous
    "var_tt": ("variant", ["trk", "trk"], ["trk", "int"], [], 5),
    "var_iit": ("variant", ["int", "int", "trk"], ["int", "trk", "shrt"], [], 5),
    "exp_tt": ("expected", ["trk", "trk"], ["trk", "int"], [], 5),
}
GROUPS = (1, 2, 3, 4, 5)
# operations every implementation provides: the only ones used to *reach* a state (path prefixes)
PATH_OPS = {"emplace", "ctor_inplace", "ctor_move", "ctor_default", "write_through", "visit_mv", "deref_mv", "error_mv"}
S0 = {"a": {"idx": 0, "val": 0}, "b": {"idx": 0, "val": 0}, "r": [1, 2]}


def _q(xs):
    return "{" + ", ".join('"%s"' % x for x in xs) + "}"


def _consts(kind, alts, src, mix):
    a = list(alts) + [""] * (4 - len(alts))
    c = {"Kind": '"%s"' % kind, "SrcTypes": _q(src), "MixTypes": _q(mix)}
    for i in range(4):
        c["A%d" % (i + 1)] = '"%s"' % a[i]
    return c


def _key(t, which):
    return json.dumps(t[which], sort_keys=True)


def _call(t):
    return {"op": t["op"], "o": t["o"], "x": t["x"]}


def model(tier, rep):
    """MC + GEN for every instantiation. Returns {inst: {"edges": path, "n": int, "gen": [...]}}."""
    from concurrent.futures import ThreadPoolExecutor

    def one(inst):
        kind, alts, src, mix, _ = INSTS[inst]
        return inst, vlib.tlc_mc("Sum.tla", "Sum_%s.cfg" % kind, "sum_%s_%s" % (inst, tier), workers=2,
                                 constants=_consts(kind, alts, src, mix), heap="2g")
    with ThreadPoolExecutor(max_workers=6) as ex:
        res = dict(ex.map(one, INSTS))
    out = {}
    d = vlib.workdir("scripts")
    s0 = json.dumps(S0, sort_keys=True)
    for inst, r in res.items():
        rep.add_mc("Sum[%s]" % inst, r)
        gen = [t for t in r["gen"] if t["op"] != "init"]
        sc, st = vlib.plan_edges(gen, _key, lambda n: n == s0, _call, follow=lambda t: t["op"] in PATH_OPS)
        if st["unreachable"]:
            raise vlib.ModelFailure("planner: %d unreachable edges in Sum[%s]" % (st["unreachable"], inst))
        p = os.path.join(d, "sum_%s_%s.ndjson" % (inst, tier))
        vlib.write_scripts(sc, p)
        out[inst] = {"edges": p, "n": len(sc), "gen": gen}
        rep.cov["modules"]["Sum[%s]" % inst].update({"scripts": len(sc), "planner": st})
        if sc and inst in ("var_ibtm", "opt_trk"):
            rep.sample({"module": "Sum[%s]" % inst, "script": sc[len(sc) // 2]})
    rep.cov["exhaustive"] = True
    return out


def walks(tier, mdl, unsupported):
    """Seeded random walks over the exported transition graph (long histories), avoiding operations the
    implementation under test does not provide (they would abort the script)."""
    nw, ln = (25, 40) if tier == "quick" else (250, 60)
    d = vlib.workdir("scripts")
    out = {}
    for inst, m in mdl.items():
        bad = {u.split(" ", 2)[2] for u in unsupported if u.split(" ", 2)[1] == inst}
        adj = {}
        for t in m["gen"]:
            if t["op"] in bad or "%s:%s" % (t["op"], t["x"]["t"]) in bad:
                continue
            adj.setdefault(_key(t, "pre"), []).append(t)
        rng = random.Random(vlib.seed() * 7919 + sum(map(ord, inst)))
        scripts = []
        s0 = json.dumps(S0, sort_keys=True)
        for _ in range(nw):
            cur, sc = s0, []
            for _ in range(ln):
                es = adj.get(cur)
                if not es:
                    break
                t = es[rng.randrange(len(es))]
                sc.append(_call(t))
                cur = _key(t, "post")
            scripts.append(sc)
        p = os.path.join(d, "sum_%s_%s_walks.ndjson" % (inst, tier))
        vlib.write_scripts(scripts, p)
        out[inst] = {"path": p, "n": len(scripts)}
    return out


_REL = {"LE": "<=", "GT": ">", "GE": ">="}
PROBES = {}
for _k, _op in _REL.items():
    PROBES["VP_CMP_NULL_" + _k] = "(o %s etl::nullopt) + (r %s etl::nullopt) + (t %s etl::nullopt)" % (_op, _op, _op)
    PROBES["VP_CMP_NULL_R_" + _k] = "(etl::nullopt %s o) + (etl::nullopt %s r) + (etl::nullopt %s t)" % (_op, _op, _op)
# converting construction of a variant with a repeated alternative type from a type that occurs once
PROBES["VP_VARIANT_REPEAT_CONV"] = "(int)etl::variant<int, int, T>(T{1}).index()"


def probes():
    """Compile probes: members a requires-expression finds but whose body fails to instantiate."""
    d = vlib.workdir("sum_probe")
    from concurrent.futures import ThreadPoolExecutor

    def one(item):
        name, expr = item
        src = os.path.join(d, name + ".cpp")
        open(src, "w").write("#include <etl/optional.hpp>\n#include <etl/variant.hpp>\nstruct T { int v; friend bool operator==(T, T) { return true; } "
                             "friend bool operator<(T, T) { return false; } };\n"
                             "int main() { etl::optional<int> o; etl::optional<int&> r; etl::optional<T> t; return (int)(%s); }\n" % expr)
        try:
            p = subprocess.run(["g++", "-std=c++20", "-fsyntax-only", "-w", "-I" + os.path.join(vlib.REPO, "include"), src],
                               capture_output=True, timeout=300)
        except subprocess.TimeoutExpired:
            raise vlib.ModelFailure("compile probe timeout " + name)
        return name, p.returncode == 0
    with ThreadPoolExecutor(max_workers=6) as ex:
        return dict(ex.map(one, PROBES.items()))


def build_drivers(have, std=True):
    jobs = []
    pf = ["-D%s=%d" % (k, 1 if v else 0) for k, v in sorted(have.items())]
    for g in GROUPS:
        jobs.append(dict(src="sum_driver.cpp", out="sum_etl_g%d" % g, flags=["-DVH_GROUP=%d" % g] + pf))
    if std:
        for g in GROUPS:
            jobs.append(dict(src="sum_driver.cpp", out="sum_std_g%d" % g, flags=["-DVH_GROUP=%d" % g, "-DVH_STD"],
                             std="c++23", include_repo=False))
    paths = vlib.build_many(jobs, par=10)
    bins = {("etl", g): paths[i] for i, g in enumerate(GROUPS)}
    if std:
        bins.update({("std", g): paths[len(GROUPS) + i] for i, g in enumerate(GROUPS)})
    return bins


def execute(bins, impl, scripts, tag):
    """scripts: {inst: (path, n)}. Returns (trace paths, stats)."""
    d = vlib.workdir("traces")
    tasks, outs, n = [], [], 0
    for inst, (sp, k) in sorted(scripts.items()):
        tp = os.path.join(d, "sum_%s_%s_%s.ndjson" % (impl, inst, tag))
        tasks.append(([bins[(impl, INSTS[inst][4])], "replay", inst, sp], tp))
        outs.append(tp)
        n += k
    res = vlib.run_parallel(tasks)
    unsupported = sorted({l for _, err in res for l in err.splitlines() if l.startswith("UNSUPPORTED")})
    leaks = [l for _, err in res for l in err.splitlines() if l.startswith("SUMMARY") and not l.endswith("live_delta=0")]
    diverged = sum(1 for _, err in res for l in err.splitlines() if l.startswith("DIVERGED"))
    return outs, {"scripts": n, "unsupported": unsupported, "leaks": leaks, "diverged": diverged}


def run_impl(tier, mdl, bins, impl, avoid=None):
    tr1, st1 = execute(bins, impl, {i: (m["edges"], m["n"]) for i, m in mdl.items()}, "edges")
    wk = walks(tier, mdl, st1["unsupported"] if avoid is None else avoid)
    tr2, st2 = execute(bins, impl, {i: (w["path"], w["n"]) for i, w in wk.items()}, "walks")
    merged = concat(tr1 + tr2, os.path.join(vlib.workdir("traces"), "sum_%s_merged" % impl), 8)
    tv = vlib.tv_parallel("SumTrace.tla", "SumTrace.cfg", merged, "sum_tv_" + impl)
    st = {"scripts": st1["scripts"] + st2["scripts"], "unsupported": sorted(set(st1["unsupported"]) | set(st2["unsupported"])),
          "leaks": st1["leaks"] + st2["leaks"], "edge_unsupported": st1["unsupported"],
          "diverged": st1["diverged"] + st2["diverged"]}
    if st["diverged"] and not tv["deviations"]:
        # the driver dropped the rest of a script because the real state was not the planned one, yet no
        # event was judged deviating: the planner and the driver disagree - never a verdict about etl
        raise vlib.ModelFailure("%d script(s) diverged from the planned state without a recorded deviation (%s)" % (st["diverged"], impl))
    return tv, st


def pipeline(tier, rep, calibrate=True):
    mdl = model(tier, rep)
    have = probes()
    bins = build_drivers(have, std=calibrate)
    tv, st = run_impl(tier, mdl, bins, "etl")
    rep.add_tv("Sum", tv, st["scripts"])
    nd = [u[len("UNSUPPORTED "):] for u in st["unsupported"]]
    rep.cov["modules"]["Sum"].update({"not_drivable": nd, "compile_probes": have})
    if st["leaks"]:
        rep.notes.append({"live_count_imbalance": st["leaks"]})
    if st["diverged"]:
        rep.notes.append({"scripts_cut_after_a_deviation": st["diverged"]})
    if calibrate:
        ctv, cst = run_impl(tier, mdl, bins, "std", avoid=st["edge_unsupported"])
        if ctv["deviations"]:
            d = ctv["deviations"][0]
            raise vlib.ModelFailure("calibration: libstdc++ deviates from Sum spec (spec/projection error): %s %s"
                                    % (d["kind"], json.dumps(d.get("ev"))[:700]))
        rep.cov["modules"]["Sum"]["calibration_events_std"] = ctv["events"]
        rep.cov["modules"]["Sum"]["not_provided_by_std"] = [u[len("UNSUPPORTED "):] for u in cst["unsupported"]]
    return tv, st


def replay(rec):
    """check.py --replay hook. Re-executes one saved deviating event on the current tree: rebuilds the model of its
    instantiation, takes the planned script of the very same edge (same pre-state, call and arguments), runs it on the
    real templates and validates the trace again. Returns the (non-lifetime) deviations that are still reported."""
    ev = rec["event"]
    inst = ev["inst"]
    kind, alts, src, mix, grp = INSTS[inst]
    r = vlib.tlc_mc("Sum.tla", "Sum_%s.cfg" % kind, "sum_replay_" + inst, workers=2, constants=_consts(kind, alts, src, mix), heap="2g")
    gen = [t for t in r["gen"] if t["op"] != "init"]
    s0 = json.dumps(S0, sort_keys=True)
    want = [t for t in gen if t["op"] == ev["op"] and t["o"] == ev["o"] and t["x"] == ev["x"] and t["pre"] == ev["pre"]]
    if not want:
        raise vlib.ModelFailure("replay: the model of %s has no edge for the saved event" % inst)
    sc, st = vlib.plan_edges(gen, _key, lambda n: n == s0, _call, follow=lambda t: t["op"] in PATH_OPS)
    # the planner emits one script per edge in the order of gen: pick by index to keep the exact pre-state
    idx = gen.index(want[0])
    script = [sc[idx]]
    sp = os.path.join(vlib.workdir("scripts"), "sum_replay.ndjson")
    vlib.write_scripts(script, sp)
    have = probes()
    pf = ["-D%s=%d" % (k, 1 if v else 0) for k, v in sorted(have.items())]
    b = vlib.build("sum_driver.cpp", "sum_replay_g%d" % grp, flags=["-DVH_GROUP=%d" % grp] + pf)
    tp = os.path.join(vlib.workdir("traces"), "sum_replay.ndjson")
    vlib.run([b, "replay", inst, sp], tp)
    tv = vlib.tlc_tv("SumTrace.tla", "SumTrace.cfg", tp, "sum_tv_replay")
    return [d for d in tv["deviations"] if not d["kind"].startswith("life")]
