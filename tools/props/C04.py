"""C04 - basic_inplace_string matches std::basic_string for results that fit and is always null-terminated."""
from pipes import string


def run(tier, rep):
    string.pipeline(tier, rep)
    rep.assumptions += [
        "characters are the codes {0, 97, 98, 200}: embedded null, ordinary letters and one code >= 128 stand for all characters; wide instantiations map the model codes onto characters with colliding low bytes (wchar_t: 200->0x161, 98->0x100; char16_t: 200->0x100; char32_t: 200->0x10061, 98->0x100; order preserved), 1-byte types use the codes themselves",
        "exhaustive only inside the model: capacities 0..3 (thorough 0..4), every string over {0, 97, 200} as the object under test, a small fixed set of caller buffers / argument strings, boundary positions and counts {0, 1, size-1, size, size+1, npos}; calls that do not involve the second object are explored from the states where it is empty",
        "capacities 7, 15 (size kept in the last byte) and 16, 31, 255, 256 (separate size field) are reached by seeded random histories that hover near full, not exhaustively",
        "results that do not fit the capacity are judged by the invariant only (size() <= capacity(), data()[size()] == 0, strlen(c_str()) consistent); what a clamping operation keeps is not checked",
        "moved-from strings are only required to satisfy the invariant",
        "the TLA+ reading of std::basic_string (StringOps.tla, searches via StringViewOps.tla whose declarative and operational definitions TLC proves equal) is calibrated against libstdc++ on the identical calls (zero deviations required)",
        "quick tier: every planned call runs on char, each other character type runs a quarter of them; thorough: every call on all five character types",
    ]
