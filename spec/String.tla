------------------------------ MODULE String ------------------------------
(* State machine of two fixed-capacity strings a, b of one capacity (property C04).  TLC              *)
(*   - checks the invariants / action properties below (MC role), and                                 *)
(*   - exports every transition (GEN role: ACTION_CONSTRAINT Emit prints last' as JSON, VIEW hides      *)
(*     `last`) plus, per state, one query bundle (INVARIANT EmitQ) that the driver expands into every   *)
(*     search / compare overload with every boundary (pos, count).                                      *)
(* a is the object under test: every public mutator with every boundary argument.  b is the            *)
(* inplace_string *argument* of the overloads taking a string: it is only (re)constructed from the       *)
(* buffers in XSB, which keeps the state space at |strings(a)| x |XSB|.  Calls that do not involve b      *)
(* are explored from the states with b empty only (their effect cannot depend on b); calls that would     *)
(* make b arbitrary (swap) or unspecified (move, over-capacity results) lead to a terminal state:         *)
(* they are exported and replayed, but no path continues through them.                                    *)
EXTENDS StringOps, TLC, Json

CONSTANTS Caps, Alphabet, MaxXs

VARIABLES cap, obj, fin, last
vars == <<cap, obj, fin, last>>
View == <<cap, obj, fin>>

\* caller buffers: empty, one char, two distinct chars (order visible), embedded null in the middle, null first
AllXS == {<<>>, <<97>>, <<200, 97>>, <<97, 0, 200>>, <<0, 97>>, <<200, 200, 97, 0>>}
XS == {s \in AllXS : Len(s) <= MaxXs}
XSB == {s \in XS : Len(s) <= cap /\ s # <<0, 97>>}

X0 == [c |-> 0, n |-> 0, p |-> 0, xs |-> <<>>, src |-> "b", p2 |-> 0, n2 |-> 0, d |-> 0]
C(op, x) == [op |-> op, x |-> x]

\* boundary values for a position / count relative to a length: 0, 1, len-1, len, len+1, npos
Bnd(L) == {v \in {0, 1, L - 1, L, L + 1} : v >= 0} \cup {NPOS}
Idx(L) == 0..L

\* source-argument variants of one family: which kinds exist for it, with their argument values
\* (fam: name prefix, base: the record carrying the target-side arguments p / n)
SrcXs(fam, base, kinds) ==
    (IF "fill" \in kinds THEN {C(fam \o "_fill", [base EXCEPT !.n2 = k, !.c = ch]) : k \in 0..(cap + 1), ch \in {97, 0}} ELSE {})
    \cup (IF "pn" \in kinds THEN {C(fam \o "_pn", [base EXCEPT !.xs = xs, !.n2 = k]) : xs \in XS, k \in 0..MaxXs} ELSE {})
    \cup (IF "cstr" \in kinds THEN {C(fam \o "_cstr", [base EXCEPT !.xs = xs]) : xs \in XS} ELSE {})
    \cup (IF "range" \in kinds THEN {C(fam \o "_range", [base EXCEPT !.xs = xs]) : xs \in XS} ELSE {})
    \cup (IF "sv" \in kinds THEN {C(fam \o "_sv", [base EXCEPT !.xs = xs]) : xs \in XS} ELSE {})
    \cup (IF "sv_sub" \in kinds
          THEN {C(fam \o "_sv_sub", [base EXCEPT !.xs = xs, !.p2 = q, !.n2 = k]) :
                    xs \in {s \in XS : Len(s) = MaxXs}, q \in 0..MaxXs, k \in Bnd(MaxXs)}
               \cup {C(fam \o "_sv_sub", [base EXCEPT !.xs = xs, !.p2 = q, !.d = 1]) :
                    xs \in {s \in XS : Len(s) = MaxXs}, q \in 0..MaxXs}
          ELSE {})
    \cup (IF "ch" \in kinds THEN {C(fam \o "_ch", [base EXCEPT !.c = ch]) : ch \in Alphabet} ELSE {})

\* variants taking an inplace_string: the whole string and a substring of it
SrcStr(fam, base, s, kinds) ==
    (IF "str" \in kinds THEN {C(fam \o "_str", [base EXCEPT !.src = s])} ELSE {})
    \cup (IF "sub" \in kinds
          THEN {C(fam \o "_sub", [base EXCEPT !.src = s, !.p2 = q, !.n2 = k]) : q \in Idx(Len(obj[s])), k \in Bnd(Len(obj[s]))}
               \cup {C(fam \o "_sub", [base EXCEPT !.src = s, !.p2 = q, !.d = 1]) : q \in Idx(Len(obj[s]))}
          ELSE {})

AllKinds == {"fill", "pn", "cstr", "range", "sv", "sv_sub", "ch"}

\* (p, n) pairs for replace(pos, count, ...): every index with the boundary counts; iterator form: exact ranges
ReplArgs(L) == {<<p, k>> : p \in Idx(L), k \in Bnd(L)}
RangeArgs(L) == {<<p, k>> : p \in Idx(L), k \in 0..L}
\* fewer target ranges for the overloads that also take a (pos, count) inside the source
ReplFew(L) == {<<p, k>> : p \in {0, L}, k \in {0, 1, NPOS}}

\* ---- calls on a that do not involve b -------------------------------------------------------------
CallsSelf ==
    LET L == Len(obj.a) IN
    {C("ctor_default", X0), C("clear", X0), C("pop_back", X0)}
    \cup SrcXs("ctor", X0, {"fill", "pn", "cstr", "range", "sv"})
    \cup {C("ctor_sv_sub", [X0 EXCEPT !.xs = xs, !.p2 = q, !.n2 = k]) : xs \in {s \in XS : Len(s) = MaxXs}, q \in 0..MaxXs, k \in Bnd(MaxXs)}
    \cup SrcXs("opas", X0, {"cstr", "ch", "sv"})
    \cup SrcXs("assign", X0, {"fill", "pn", "cstr", "range", "sv", "sv_sub"})
    \cup SrcXs("append", X0, {"fill", "pn", "cstr", "range", "sv", "sv_sub"})
    \cup SrcXs("pluseq", X0, {"ch", "cstr", "sv"})
    \cup {C("push_back", [X0 EXCEPT !.c = ch]) : ch \in Alphabet}
    \cup UNION {SrcXs("insert", [X0 EXCEPT !.p = p], {"fill", "pn", "cstr", "sv", "sv_sub"}) : p \in Idx(L)}
    \cup UNION {SrcXs("replace", [X0 EXCEPT !.p = pk[1], !.n = pk[2]], {"pn", "cstr"}) : pk \in ReplArgs(L)}
    \cup UNION {SrcXs("replace_it", [X0 EXCEPT !.p = pk[1], !.n = pk[2]], {"pn", "cstr", "fill"}) : pk \in RangeArgs(L)}
    \cup SrcXs("plus", X0, {"cstr", "ch"})
    \cup SrcXs("rplus", X0, {"cstr", "ch"})
    \* the string argument is the object itself (aliasing is allowed by the standard)
    \cup SrcStr("opas", X0, "a", {"str"}) \cup SrcStr("assign", X0, "a", {"str", "sub"})
    \cup SrcStr("append", X0, "a", {"str", "sub"}) \cup SrcStr("pluseq", X0, "a", {"str"})
    \cup UNION {SrcStr("insert", [X0 EXCEPT !.p = p], "a", {"str", "sub"}) : p \in Idx(L)}
    \cup UNION {SrcStr("replace", [X0 EXCEPT !.p = pk[1], !.n = pk[2]], "a", {"str"}) : pk \in ReplArgs(L)}
    \cup SrcStr("plus", X0, "a", {"str"})
    \cup {C(op, [X0 EXCEPT !.src = "a"]) : op \in {"swap", "fswap"}}
    \cup {C("erase_idx", [X0 EXCEPT !.p = p, !.n = k, !.d = dd]) : p \in Idx(L), k \in Bnd(L), dd \in {0, 1}}
    \cup {C("erase_idx", [X0 EXCEPT !.d = 2])}
    \cup {C("erase_it", [X0 EXCEPT !.p = p]) : p \in Idx(L)}
    \cup {C("erase_range", [X0 EXCEPT !.p = pk[1], !.n = pk[2]]) : pk \in RangeArgs(L)}
    \cup {C("resize", [X0 EXCEPT !.n = k]) : k \in 0..(cap + 1)}
    \cup {C("resize_ch", [X0 EXCEPT !.n = k, !.c = ch]) : k \in 0..(cap + 1), ch \in {97, 0}}
    \cup {C("substr", [X0 EXCEPT !.p = p, !.n = k, !.d = dd]) : p \in Idx(L), k \in Bnd(L), dd \in {0, 1}}
    \cup {C("substr", [X0 EXCEPT !.d = 2])}
    \cup {C("copy", [X0 EXCEPT !.p = p, !.n = k, !.d = 0]) : p \in Idx(L), k \in Bnd(L)}
    \cup {C("copy", [X0 EXCEPT !.n = k, !.d = 1]) : k \in Bnd(L)}
    \cup {C(op, [X0 EXCEPT !.c = ch]) : op \in {"erase_val", "erase_if"}, ch \in Alphabet}

\* ---- calls on a whose argument is b ----------------------------------------------------------------
CallsWithB ==
    LET L == Len(obj.a) IN
    SrcStr("ctor", X0, "b", {"str", "sub"})
    \cup SrcStr("opas", X0, "b", {"str"}) \cup SrcStr("assign", X0, "b", {"str", "sub"})
    \cup SrcStr("append", X0, "b", {"str", "sub"}) \cup SrcStr("pluseq", X0, "b", {"str"})
    \cup UNION {SrcStr("insert", [X0 EXCEPT !.p = p], "b", {"str"}) : p \in Idx(L)}
    \cup UNION {SrcStr("insert", [X0 EXCEPT !.p = p], "b", {"sub"}) : p \in {0, L}}
    \cup UNION {SrcStr("replace", [X0 EXCEPT !.p = pk[1], !.n = pk[2]], "b", {"str"}) : pk \in ReplArgs(L)}
    \cup UNION {SrcStr("replace", [X0 EXCEPT !.p = pk[1], !.n = pk[2]], "b", {"sub"}) : pk \in ReplFew(L)}
    \cup UNION {SrcStr("replace_it", [X0 EXCEPT !.p = pk[1], !.n = pk[2]], "b", {"str"}) : pk \in RangeArgs(L)}
    \cup SrcStr("plus", X0, "b", {"str"})
    \cup {C(op, X0) : op \in {"swap", "fswap", "ctor_move", "opas_move"}}

\* ---- (re)construction of the argument object ---------------------------------------------------------
CallsB == {C("ctor_range", [X0 EXCEPT !.xs = xs, !.src = "a"]) : xs \in XSB}

\* ctor_sub has the signature (other, pos) as its one-default form: no count argument at all
Norm(c) == c

Init ==
    /\ cap \in Caps
    /\ obj = [a |-> <<>>, b |-> <<>>]
    /\ fin = FALSE
    /\ last = [op |-> "init", o |-> "a", x |-> X0, pre |-> obj, post |-> obj, ret |-> 0, out |-> <<>>, cap |-> cap,
               rel |-> FALSE, fin |-> FALSE]

Step(o, c) ==
    /\ Pre(c.op, o, c.x, obj, cap)
    /\ LET ef == Eff(c.op, o, c.x, obj, cap)
           un == Unspecified(c.op, o, c.x, obj, cap)
           st2 == IF c.op \in MoveOps THEN [ef.st EXCEPT ![c.x.src] = <<>>] ELSE ef.st
           f2 == un \/ (Fam(c.op) = "swap" /\ c.x.src # o)
       IN /\ obj' = st2
          /\ fin' = f2
          /\ last' = [op |-> c.op, o |-> o, x |-> c.x, pre |-> obj, post |-> st2, ret |-> ef.ret, out |-> ef.out,
                      cap |-> cap, rel |-> un, fin |-> f2]
    /\ cap' = cap

Next ==
    /\ ~fin
    /\ \/ obj.b = <<>> /\ \E c \in CallsSelf : Step("a", c)
       \/ \E c \in CallsWithB : Step("a", c)
       \/ \E c \in CallsB : Step("b", c)

Spec == Init /\ [][Next]_vars

Emit == PrintT(<<"GEN", ToJson(last')>>)

\* ---- query bundle per (non-terminal) state ---------------------------------------------------------
RECURSIVE SumLenP1(_)
SumLenP1(S) == IF S = {} THEN 0 ELSE LET s == CHOOSE t \in S : TRUE IN Len(s) + 1 + SumLenP1(S \ {s})
LongXS == CHOOSE s \in XS : \A t \in XS : Len(t) <= Len(s)

\* the argument lists are exported as sets (JSON arrays)
QRec ==
    LET L == Len(obj.a) M == Len(obj.b) IN
    [kind |-> "q", cap |-> cap, pre |-> obj, full |-> B2I(obj.b = <<>>),
     P |-> Bnd(L), P1 |-> Idx(L), C1 |-> Bnd(L),
     \* second substring of the 5-argument compare: every position of the argument and every boundary count, so that
     \* (pos2, count2) also lies strictly inside an argument that is longer than the string itself
     P2 |-> Idx(M), C2 |-> Bnd(M), C2X |-> Bnd(Len(LongXS)),
     XS |-> XS, LX |-> LongXS, CH |-> {97, 0}]

\* number of query calls the driver has to make for a bundle
QCalls(q) ==
    LET p == Cardinality(q.P) s1 == Cardinality(q.P1) * Cardinality(q.C1) nx == Cardinality(q.XS) nc == Cardinality(q.CH)
        pn == SumLenP1(q.XS)
        s5 == s1 * Cardinality(q.P2) * (Cardinality(q.C2) + 1)
    IN  6 * (p + 1) + 2 + s1 + s5 + 2                                     \* str: searches, compare str/str2, 3str, 5str, relops str/str2
      + (IF q.full = 1
         THEN 6 * (nx * (p + 1) + p * pn + nc * (p + 1)) - nx             \* p, pn, ch (find_first_not_of(s) has no default pos)
            + nx * (p + 1)                                                 \* find_first_of(sv)
            + nx * (2 + 2 * s1) + s1 * (Len(q.LX) + 1) * (Cardinality(q.C2X) + 1) + s1 * (Len(q.LX) + 1)  \* compare p, sv, 3p, 3sv; 5sv on LX; 4pn on LX
            + 3 * (2 * nx + nc)                                            \* starts_with / ends_with / contains: sv, p, ch
            + 2 * nx                                                       \* relops p, rp
         ELSE 0)

EmitQ == fin \/ PrintT(<<"GEN", ToJson(QRec @@ [ncalls |-> QCalls(QRec)])>>)

\* ---- what TLC proves about the model (MC role) ------------------------------------------------------
TypeOK == /\ cap \in Caps
          /\ \A o \in {"a", "b"} : obj[o] \in Seq(Alphabet)
          /\ fin \in BOOLEAN

CapInv == \A o \in {"a", "b"} : Len(obj[o]) <= cap
CapConst == [][cap' = cap]_vars

\* the c_str() view of a state: the stored characters followed by the terminator; strlen stops at the first null
CStrInv == \A o \in {"a", "b"} : LET buf == obj[o] \o <<0>> IN CStr(buf) = CStr(obj[o]) /\ Len(CStr(buf)) <= Len(obj[o])

\* an operation on a never changes b unless b is the swap partner or the moved-from source
Independence ==
    [][(last'.o = "a" /\ ~(Fam(last'.op) = "swap" /\ last'.x.src = "b") /\ last'.op \notin MoveOps) => obj'.b = obj.b]_vars

\* laws of the deterministic part: compare is consistent with equality, find with contains, substr with size
Laws ==
    LET a == obj.a b == obj.b IN
    /\ (Compare(a, b) = 0) <=> (a = b)
    /\ Compare(a, b) = -Compare(b, a)
    /\ Contains(a, b) <=> (Find(a, b, 0) # NPOS)
    /\ \A p \in Idx(Len(a)) : Len(Substr(a, p, NPOS)) = Len(a) - p
    /\ RFind(a, b, StdDefaultPos("rfind")) = RFind(a, b, NPOS)

\* append / insert / replace agree where they overlap (guards against a misreading shared by one family)
FamilyLaws ==
    [][LET op == last'.op x == last'.x e == obj[last'.o] IN
       /\ (Fam(op) = "append" /\ ~last'.rel) => obj'[last'.o] = Ins(e, Len(e), Arg(Kind(op), x, obj))
       /\ (Fam(op) = "insert" /\ ~last'.rel) => obj'[last'.o] = Repl(e, x.p, 0, Arg(Kind(op), x, obj))
       /\ (Fam(op) = "erase_range") => obj'[last'.o] = Repl(e, x.p, x.n, <<>>)
       /\ (Fam(op) \in {"replace", "replace_it"} /\ ~last'.rel) =>
              Len(obj'[last'.o]) = Len(e) - RLen(e, x.p, x.n) + Len(Arg(Kind(op), x, obj))]_vars
=============================================================================
