"""C09 - sets stay sorted and unique and answer like std::set."""
import json
import os

import vlib
from pipes import set as setpipe


def run(tier, rep):
    tv, st = setpipe.pipeline(tier, rep)
    # life-* deviations are the business of C03 (same traces, different monitor)
    rep.devs = [d for d in rep.devs if not d["kind"].startswith("life")]
    # debugging aid only (never read by a check): the raw deviations of this run
    with open(os.path.join(vlib.workdir("set"), "devs_%s.json" % tier), "w") as f:
        json.dump(rep.devs, f)
    rep.assumptions += [
        "keys are small integers; int and one non-trivial element type (Tracked) stand for every Key",
        "comparators: less<Key>, greater<Key>, less<void> (transparent, probed with a non-key type)",
        "the two objects of a history interact only through swap: the full operation surface is enumerated on an object "
        "while the other one is empty, pairs of non-empty sets are enumerated for insert(copy) and the swaps",
        "behaviour when capacity would be exceeded is outside the property, except a single new key into a full static_set",
        "flat_set backing container: etl::static_vector (inplace_vector lacks the members flat_set needs: not drivable)",
        "the TLA+ reading of std::set is calibrated against libstdc++ std::set/std::multiset (capacity added by a thin adapter) "
        "on the same scripts; extract/replace/sorted_unique construction exist only in the adapter, i.e. are calibrated "
        "against the property text",
    ]

