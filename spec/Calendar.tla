----------------------------- MODULE Calendar -----------------------------
(* Day-by-day walker of the proleptic Gregorian calendar.  One chain per 400-year era e            *)
(* (0000-03-01 + 400 e years .. the day before the next era), so that TLC workers share the range.  *)
(* State: day count n since 1970-01-01, civil date <<y, m, d>>, weekday wd (0 = Sunday).            *)
(*                                                                                                  *)
(* What TLC proves (MC role), for every day of the eras in Eras:                                    *)
(*   Closed   the closed forms of CalendarOps equal the walker: CivilFromDays(n) = date,            *)
(*            DaysFromCivil(date) = n (hence a bijection day count <-> civil date), Weekday(n) = wd *)
(*   Valid    the walker only visits dates with ValidDate, and (EraDays) visits as many days per     *)
(*            era as there are valid dates: ok() <=> the walker visits the date                      *)
(*   Anchor   day 0 is Thursday 1970-01-01                                                           *)
(*   Link     the successor of the last day of era e is the initial state assumed for era e+1        *)
(*            (so contiguous eras form ONE chain through the anchor)                                 *)
(* Nothing is exported from here; the operation inputs come from CalendarArith.tla and the driver's  *)
(* own exhaustive sweep over sys_days.                                                               *)
EXTENDS CalendarOps, TLC, FiniteSets

CONSTANTS EraIdx      \* eras as naturals: era = index - 82 (TLC cfg files take no negative literals)
Eras == {k - 82 : k \in EraIdx}

VARIABLES n, date, wd
vars == <<n, date, wd>>

EraOf(k) == (k + 719468) \div 146097

ASSUME DivSemantics == (-7) \div 2 = -4 /\ (-7) % 2 = 1 /\ (-1) % 400 = 399

\* 400 Gregorian years are 146097 days = 20871 weeks: every era is a translate of era 0
YearDays(y) == LastDay(y, 1) + LastDay(y, 2) + LastDay(y, 3) + LastDay(y, 4) + LastDay(y, 5) + LastDay(y, 6)
               + LastDay(y, 7) + LastDay(y, 8) + LastDay(y, 9) + LastDay(y, 10) + LastDay(y, 11) + LastDay(y, 12)
ASSUME EraDays ==
    /\ \A y \in 0..399 : YearDays(y) = 365 + (IF IsLeap(y) THEN 1 ELSE 0)
    /\ Cardinality({y \in 0..399 : IsLeap(y)}) = 97
    /\ 400 * 365 + 97 = 146097 /\ 146097 % 7 = 0

Init == \E e \in Eras : n = EraStart(e) /\ date = <<400 * e, 3, 1>> /\ wd = 3

Next ==
    /\ EraOf(n + 1) = EraOf(n)
    /\ n' = n + 1
    /\ date' = SuccDate(date)
    /\ wd' = (wd + 1) % 7

Spec == Init /\ [][Next]_vars

Closed ==
    /\ CivilFromDays(n) = date
    /\ DaysFromCivil(date[1], date[2], date[3]) = n
    /\ Weekday(n) = wd

Valid == ValidDate(date[1], date[2], date[3])

Anchor == n = 0 => (date = <<1970, 1, 1>> /\ wd = 4)

Link ==
    EraOf(n + 1) # EraOf(n) =>
        /\ SuccDate(date) = <<400 * (EraOf(n) + 1), 3, 1>>
        /\ (wd + 1) % 7 = 3
        /\ n + 1 = EraStart(EraOf(n) + 1)

\* first/last day of each month as the binding uses them
MonthEnds ==
    /\ (date[3] = 1 => DaysFromCivil(date[1], date[2], 1) = n)
    /\ (date[3] = LastDay(date[1], date[2]) => SuccDate(date)[3] = 1)
    /\ date[3] <= LastDay(date[1], date[2])
===========================================================================
