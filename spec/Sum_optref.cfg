SPECIFICATION Spec
CONSTANTS
  Kind = "optref"
  A1 = "none"
  A2 = "ref"
  A3 = ""
  A4 = ""
  SrcTypes = {"int"}
  MixTypes = {}
VIEW View
ACTION_CONSTRAINT Emit
INVARIANTS TypeOK Canonical OrderLaws SelectLaws
PROPERTIES CopyIndependence CopyMakesEqual MoveKeepsIndex SwapExchanges PureIsPure
CHECK_DEADLOCK FALSE
