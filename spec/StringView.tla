----------------------------- MODULE StringView -----------------------------
(* Input-domain enumerator for the string_view members (property C08).                              *)
(* States are the pairs (h, n) of strings over Alphabet with Len(h) <= MaxH, Len(n) <= MaxN; the     *)
(* state graph is the prefix lattice (append one character to h or to n), so TLC visits every pair    *)
(* exactly once, in parallel.  On every state TLC                                                     *)
(*   - proves that the declarative and the operational definition of every operator of               *)
(*     StringViewOps agree for ALL positions 0..Len+2 and npos and ALL counts (MC role), plus a set    *)
(*     of algebraic laws relating the operators to each other, and                                     *)
(*   - exports the input record (GEN role) that harness/stringview_driver.cpp expands into calls.      *)
EXTENDS StringViewCalls, TLC, Json

CONSTANTS Alphabet, MaxH, MaxN, MaxC5
\* MaxC5: the 5-argument compare families are enumerated for Len(h), Len(n) <= MaxC5 only

VARIABLES h, n
vars == <<h, n>>

Init == h = <<>> /\ n = <<>>
Next ==
    \/ Len(h) < MaxH /\ \E c \in Alphabet : h' = Append(h, c) /\ n' = n
    \/ Len(n) < MaxN /\ \E c \in Alphabet : n' = Append(n, c) /\ h' = h
Spec == Init /\ [][Next]_vars

UpTo(k) == [i \in 1..(k + 1) |-> i - 1]                 \* <<0, 1, ..., k>>
PosList(s) == UpTo(Len(s) + 2) \o <<NPOS>>              \* every pos in [0, len+2] and npos
CntList(s) == UpTo(Len(s) + 1) \o <<NPOS>>              \* every count up to len+1 and npos
PosSet(s) == 0..(Len(s) + 2) \cup {NPOS}
CntSet(s) == 0..(Len(s) + 1) \cup {NPOS}

Rec == [h |-> h, n |-> n, P |-> PosList(h), C |-> UpTo(Len(n)), P1 |-> UpTo(Len(h)), C1 |-> CntList(h),
        P2 |-> UpTo(Len(n)), C2 |-> CntList(n), K |-> UpTo(Len(h)),
        u |-> B2I(n = <<>>), c5 |-> B2I(Len(h) <= MaxC5 /\ Len(n) <= MaxC5)]

EmitInv == PrintT(<<"GEN", ToJson(Rec @@ [ncalls |-> NCalls(Rec)])>>)

\* ---- MC: the two definitions of every operator agree on the whole bounded domain ---------------
TypeOK == h \in Seq(Alphabet) /\ n \in Seq(Alphabet) /\ Len(h) <= MaxH /\ Len(n) <= MaxN

DeclEqOper ==
    /\ \A op \in SearchOps : \A pos \in PosSet(h) : Search(op, h, n, pos) = SearchO(op, h, n, pos)
    /\ CompareD(h, n) = CompareO(h, n)
    /\ \A p \in 0..Len(h) : \A c \in CntSet(h) :
          /\ SubstrD(h, p, c) = SubstrO(h, p, c)
          /\ Substr(h, p, c) = SubstrO(h, p, c)
          /\ CopyD(h, c, p) = CopyO(h, c, p)
          /\ Copy(h, c, p) = CopyO(h, c, p)
          /\ CompareD(SubstrD(h, p, c), n) = CompareO(SubstrO(h, p, c), n)
    /\ StartsWithD(h, n) = StartsWithO(h, n)
    /\ EndsWithD(h, n) = EndsWithO(h, n)
    /\ ContainsD(h, n) = ContainsO(h, n)
    /\ \A k \in 0..Len(h) :
          /\ RemovePrefixD(h, k) = RemovePrefixO(h, k) /\ RemovePrefix(h, k) = RemovePrefixO(h, k)
          /\ RemoveSuffixD(h, k) = RemoveSuffixO(h, k) /\ RemoveSuffix(h, k) = RemoveSuffixO(h, k)

\* ---- MC: laws that tie the operators together (guards against a shared misreading) --------------
Laws ==
    /\ (Compare(h, n) = 0) <=> (h = n)
    /\ Compare(h, n) = -Compare(n, h)
    /\ Contains(h, n) <=> (Find(h, n, 0) # NPOS)
    /\ Contains(h, n) <=> (RFind(h, n, NPOS) # NPOS)
    /\ StartsWith(h, n) <=> (RFind(h, n, 0) = 0)
    /\ EndsWith(h, n) <=> (Len(n) <= Len(h) /\ Find(h, n, Len(h) - Len(n)) = Len(h) - Len(n))
    /\ Find(h, n, 0) # NPOS => Find(h, n, 0) <= RFind(h, n, NPOS)
    /\ \A pos \in PosSet(h) :
          /\ Find(h, n, pos) # NPOS => PosLe(pos, Find(h, n, pos)) /\ Occurs(h, n, Find(h, n, pos))
          /\ RFind(h, n, pos) # NPOS => LePos(RFind(h, n, pos), pos) /\ Occurs(h, n, RFind(h, n, pos))
          \* an empty needle is found at every position up to and including size()
          /\ n = <<>> => Find(h, n, pos) = (IF pos # NPOS /\ pos <= Len(h) THEN pos ELSE NPOS)
          /\ n = <<>> => RFind(h, n, pos) = ClampP(pos, Len(h))
          /\ n = <<>> => FindFirstOf(h, n, pos) = NPOS /\ FindLastOf(h, n, pos) = NPOS
          /\ n = <<>> => FindFirstNotOf(h, n, pos) = (IF pos # NPOS /\ pos < Len(h) THEN pos ELSE NPOS)
          /\ n = <<>> => FindLastNotOf(h, n, pos) = (IF Len(h) = 0 THEN NPOS ELSE ClampP(pos, Len(h) - 1))
          \* a one-character set behaves like a one-character substring
          /\ Len(n) = 1 => FindFirstOf(h, n, pos) = Find(h, n, pos) /\ FindLastOf(h, n, pos) = RFind(h, n, pos)
          \* the *_of and *_not_of results partition the positions
          /\ \A x \in 0..(Len(h) - 1) : AnyOf(At(h, x), n) \/ (FindFirstNotOf(h, n, x) = x /\ FindLastNotOf(h, n, x) = x)
          /\ h = <<>> => \A op \in SearchOps : Search(op, h, n, pos) \in {NPOS, 0}
    /\ \A p \in 0..Len(h) : Substr(h, p, NPOS) = RemovePrefix(h, p) /\ Substr(h, 0, p) = RemoveSuffix(h, Len(h) - p)
=============================================================================
